// C03: String operations agree with a byte-string model (std::string) and stay in bounds.
// Modes:
//   hist       mutation histories on 3 Strings vs std::string models in lock-step (no operand aliases its target)
//   hist_self  histories whose operands alias the target (s += s, s += *s+k, s = *s+k, s = s, s << s.substring(), ...)
//   func       pure functions on NUL-free byte strings (search, predicates, split/join, replace, trim, substring, compare, parse)
//   ints       int / unsigned / Long / ULong <-> text identities, boundaries + random blocks (LLONG_MIN excluded)
//   ints32     exhaustive: case = block of 2^20 consecutive 32-bit patterns, as int and as unsigned
//   llmin      the single value LLONG_MIN through every way of turning a Long into text
//   fmt        String::f / String(n, fmt, ...) vs vsnprintf; String(double/float)
// Oracles: std::string, libc snprintf/strtod. ASan sees over-reads because Strings under test are built with
// String(const char*, int) (block of exactly len+1 bytes when len >= 19) and raw arguments live in exact malloc blocks.
#include "common/runner.h"
#include <asl/String.h>
#include <asl/Array.h>
#include <asl/Map.h>
#include <limits.h>
#include <math.h>
#include <memory>
#include <algorithm>

using asl::String;
using asl::Array;
using asl::ByteArray;
using asl::Long;
using asl::ULong;
typedef std::string str;

// ------------------------------------------------------------------ helpers
static String exact(const str& s) { return String(s.data(), (int)s.size()); }

struct CBuf  // NUL-terminated copy in a block of exactly len+1 bytes
{
	char* p;
	int n;
	explicit CBuf(const str& s) : n((int)s.size())
	{
		p = (char*)malloc(n + 1);
		memcpy(p, s.data(), n);
		p[n] = 0;
	}
	~CBuf() { free(p); }
	operator const char*() const { return p; }
private:
	CBuf(const CBuf&);
	void operator=(const CBuf&);
};

struct RawBuf  // unterminated copy in a block of exactly len bytes
{
	char* p;
	int n;
	explicit RawBuf(const str& s) : n((int)s.size())
	{
		p = (char*)malloc(n ? n : 1);
		memcpy(p, s.data(), n);
	}
	~RawBuf() { free(p); }
private:
	RawBuf(const RawBuf&);
	void operator=(const RawBuf&);
};

static str alpha_chars(int k)
{
	switch (k) {
	case 0: return "a";
	case 1: return "ab";
	case 2: return "abc ";
	case 3: return "abcdefghijklmnopqrstuvwxyzABCDEFGHIJKLMNOPQRSTUVWXYZ0123456789 \t\n\r.,;:-_/=";
	case 4: {
		str s;
		for (int i = 1; i < 256; i++) s += (char)i;   // \v and \f included: the library's whitespace is exactly { ' ', \t, \n, \r } (myisspace), they are text
		return s;
	}
	default: return " \t\n\rxy\xc3\xa9";
	}
}
enum { NALPHA = 6 };

static str rnd(vf::Rng& r, int n, const str& al)
{
	str s;
	s.reserve(n);
	for (int i = 0; i < n; i++) s += al[r.below((uint32_t)al.size())];
	return s;
}

static bool m_isspace(char c) { return c == ' ' || c == '\t' || c == '\n' || c == '\r'; }

static str m_trim(const str& t)
{
	size_t i = 0, j = t.size();
	while (i < j && m_isspace(t[i])) i++;
	while (j > i && m_isspace(t[j - 1])) j--;
	return t.substr(i, j - i);
}

static str m_replace(const str& t, const str& a, const str& b)
{
	str o;
	size_t i = 0;
	for (;;) {
		size_t j = t.find(a, i);
		if (j == str::npos) { o.append(t, i, str::npos); break; }
		o.append(t, i, j - i);
		o += b;
		i = j + a.size();
	}
	return o;
}

static std::vector<str> m_split(const str& t, const str& sep)
{
	std::vector<str> v;
	size_t i = 0;
	for (;;) {
		size_t j = t.find(sep, i);
		if (j == str::npos) { v.push_back(t.substr(i)); break; }
		v.push_back(t.substr(i, j - i));
		i = j + sep.size();
	}
	return v;
}

static std::vector<str> m_splitws(const str& t)
{
	std::vector<str> v;
	size_t i = 0, n = t.size();
	while (i < n) {
		while (i < n && m_isspace(t[i])) i++;
		size_t j = i;
		while (j < n && !m_isspace(t[j])) j++;
		if (j > i) v.push_back(t.substr(i, j - i));
		i = j;
	}
	return v;
}

static str m_join(const std::vector<str>& v, const str& sep)
{
	str o;
	for (size_t i = 0; i < v.size(); i++) {
		if (i) o += sep;
		o += v[i];
	}
	return o;
}

static str m_substr(const str& t, int i, int n)  // documented: from i (negative counts from the end), at most n chars
{
	int len = (int)t.size();
	if (i < 0) i += len;
	if (i > len) i = len;
	long long j = (long long)i + n;
	if (j > len) j = len;
	return t.substr(i, (size_t)(j - i));
}

static int sgn(int x) { return x < 0 ? -1 : x > 0 ? 1 : 0; }

// the three clauses every String must satisfy against its model: length(), terminator offset, bytes
static void verify(vf::Ctx& c, const String& s, const str& m, const str& key, const char* who = "result")
{
	int L = s.length();
	if (L != (int)m.size())
		c.fail(key + ".len", vf::fmt("%s: length() = %d, model length %d; model '%s'", who, L, (int)m.size(), vf::vis(m, 120).c_str()));
	size_t sl = strlen(*s);
	if (sl != m.size())
		c.fail(key + ".nul", vf::fmt("%s: length() = %d but the terminating NUL is at offset %d; got '%s' model '%s'", who, L, (int)sl,
		                             vf::vis(*s, sl, 120).c_str(), vf::vis(m, 120).c_str()));
	if (memcmp(*s, m.data(), m.size()) != 0) {
		size_t d = 0;
		while (d < m.size() && (*s)[d] == m[d]) d++;
		size_t from = d > 20 ? d - 20 : 0;
		c.fail(key + ".bytes", vf::fmt("%s: first differing byte at offset %d of %d; got ..'%s' model ..'%s'", who, (int)d, L,
		                               vf::vis(*s + from, std::min(m.size() - from, (size_t)60)).c_str(), vf::vis(m.substr(from, 60)).c_str()));
	}
}

struct Counters  // local histogram, flushed into the shared counters when the case ends (also when it fails)
{
	vf::Ctx& c;
	std::map<str, uint64_t> n;
	explicit Counters(vf::Ctx& c_) : c(c_) {}
	void add(const str& k, uint64_t v = 1) { n[k] += v; }
	~Counters()
	{
		for (std::map<str, uint64_t>::iterator it = n.begin(); it != n.end(); ++it) c.count(it->first.c_str(), it->second);
	}
};

// write-ahead description "prefix + tail" where only the short tail changes between evaluations (hot loops)
struct Desc
{
	vf::Ctx& c;
	uint32_t base;
	Desc(vf::Ctx& c_, const str& prefix) : c(c_) { c.desc(prefix); base = c.sh->desc_len; }
	void tail(const char* f, ...)
	{
		va_list ap;
		va_start(ap, f);
		int n = vsnprintf(c.sh->desc + base, 256, f, ap);
		va_end(ap);
		c.sh->desc_len = base + (n < 0 ? 0 : n > 255 ? 255 : n);
	}
};

static str show(const str& x) { return "\"" + vf::vis(x, 40) + "\"(" + std::to_string(x.size()) + ")"; }

// ------------------------------------------------------------------ mutation histories
struct Hist
{
	enum { K = 3 };
	vf::Ctx& c;
	vf::Rng& r;
	bool self;
	Counters cnt;
	std::unique_ptr<String> S[K];
	str M[K];
	str al;
	int maxlen, crossed, steps;
	int cap0[K];
	bool fresh[K];
	str key;  // key prefix of the operation in flight

	Hist(vf::Ctx& c_, bool self_) : c(c_), r(c_.rng), self(self_), cnt(c_), maxlen(40), crossed(0), steps(0) {}

	const char* cptr(int a) { return (const char*)(*S[a]); }
	int len(int a) const { return (int)M[a].size(); }

	// number of bytes to add to S[a]: half of the time steered onto a storage boundary
	int pick_add(int a)
	{
		int L = len(a), cap = S[a]->cap(), room = maxlen - L;
		if (room <= 0) return 0;
		int k = r.below(10), n;
		if (k < 5) {
			static const int B[] = {15, 16, 17, 19, 20, 21, 23, 24, 25, 1023, 1024, 1025};
			int cand[20], nc = 0;
			for (unsigned i = 0; i < sizeof(B) / sizeof(B[0]) && nc < 6; i++)
				if (B[i] > L && B[i] <= maxlen) cand[nc++] = B[i];
			for (int d = -2; d <= 1; d++)
				if (cap + d > L && cap + d <= maxlen) { cand[nc++] = cap + d; cand[nc++] = cap + d; }
			n = nc ? cand[r.below(nc)] - L : r.range(0, 8);
		}
		else if (k < 8) n = r.range(0, 8);
		else n = r.range(0, std::min(room, std::max(L, 16)));
		return std::min(n, room);
	}

	str text(int n)
	{
		str x = rnd(r, n, al);
		if (n > 0 && r.chance(0.15)) x[0] = " \t\n\r"[r.below(4)];
		if (n > 1 && r.chance(0.15)) x[n - 1] = " \t\n\r"[r.below(4)];
		return x;
	}
	char chr() { return al[r.below((uint32_t)al.size())]; }

	void before(const str& k, const str& d)
	{
		key = k;
		for (int i = 0; i < K; i++) { cap0[i] = S[i]->cap(); fresh[i] = false; }
		c.op(d);
		cnt.add("op:" + k);
	}

	const char* transition(int a)
	{
		int c1 = S[a]->cap();
		if (fresh[a]) return "new";
		if (cap0[a] == 16) return c1 == 16 ? "inline" : "inline-to-heap";
		if (c1 == cap0[a]) return "heap-nogrow";
		return cap0[a] < 1024 ? "heap-grow" : "heap-realloc";
	}

	void after(int target = -1)
	{
		str k = key;
		if (self && target >= 0) k += str(".") + transition(target);
		for (int i = 0; i < K; i++) {
			char who[8];
			snprintf(who, sizeof who, "S%d", i);
			verify(c, *S[i], M[i], k, who);
		}
		for (int i = 0; i < K; i++) {
			int c1 = S[i]->cap(), L = len(i);
			if (!fresh[i] && c1 != cap0[i]) {
				crossed++;
				cnt.add(cap0[i] == 16 ? "grow:inline->heap" : cap0[i] < 1024 ? "grow:heap(malloc path)" : "grow:heap(realloc path)");
				if (cap0[i] < 1024 && c1 >= 1024) cnt.add("grow:capacity crossed 1024");
			}
			if (L == 15 || L == 16 || L == 19 || L == 20 || L == 23 || L == 24 || L == 1023 || L == 1024 || L == 1025) cnt.add("len:" + std::to_string(L));
			if (L == c1 - 1) cnt.add("len:cap-1 (full)");
		}
		steps++;
	}

	void construct(int a, int n, bool first)
	{
		int v = r.below(10);
		str x = text(n);
		int b = (a + 1 + r.below(K - 1)) % K;
		if (first && v == 3) v = 2;
		char nm[8];
		snprintf(nm, sizeof nm, "S%d", a);
		str N = nm;
		if (!first) for (int i = 0; i < K; i++) { cap0[i] = S[i]->cap(); fresh[i] = false; }
		key = "ctor";
		switch (v) {
		case 0: c.op(N + "=String()"); cnt.add("op:ctor()"); S[a].reset(new String()); M[a] = ""; break;
		case 1: { c.op(N + "=String(const char* " + show(x) + ")"); cnt.add("op:ctor(const char*)"); CBuf cb(x); S[a].reset(new String((const char*)cb)); M[a] = x; break; }
		default:
		case 2: { c.op(N + "=String(ptr " + show(x) + ", n)"); cnt.add("op:ctor(ptr,n)"); RawBuf rb(x); S[a].reset(new String(rb.p, rb.n)); M[a] = x; break; }
		case 3: { c.op(vf::fmt("S%d=String(S%d)", a, b)); cnt.add("op:ctor(String)"); str mb = M[b]; S[a].reset(new String(*S[b])); M[a] = mb; break; }
		case 4: { char ch = chr(); c.op(N + vf::fmt("=String(char 0x%02x)", (unsigned char)ch)); cnt.add("op:ctor(char)"); S[a].reset(new String(ch)); M[a] = str(1, ch); break; }
		case 5: { char ch = chr(); c.op(N + vf::fmt("=String::repeat(0x%02x, %d)", (unsigned char)ch, n)); cnt.add("op:repeat"); S[a].reset(new String(String::repeat(ch, n))); M[a] = str(n, ch); break; }
		case 6: {
			int cap = r.below(3) == 0 ? 0 : r.below(2) ? n : n + r.range(0, 20);
			c.op(N + vf::fmt("=String(cap %d, n %d) then filled with ", cap, n) + show(x));
			cnt.add("op:ctor(cap,n)+fill");
			S[a].reset(new String(cap, n));
			if (S[a]->length() != n) c.fail("ctor.cap-n.len", vf::fmt("String(%d,%d).length() = %d", cap, n, S[a]->length()));
			memcpy(S[a]->data(), x.data(), n);
			M[a] = x;
			break;
		}
		case 7: { c.op(N + "=String(Array<char> " + show(x) + ")"); cnt.add("op:ctor(Array<char>)"); Array<char> arr(n); memcpy(arr.data(), x.data(), n); S[a].reset(new String(arr)); M[a] = x; break; }
		case 8: { c.op(N + "=String(ByteArray " + show(x) + ")"); cnt.add("op:ctor(ByteArray)"); ByteArray arr(n); memcpy(arr.data(), x.data(), n); S[a].reset(new String(arr)); M[a] = x; break; }
		case 9: { int q = (int)r.next(); c.op(N + vf::fmt("=String(int %d)", q)); cnt.add("op:ctor(int)"); S[a].reset(new String(q)); M[a] = vf::fmt("%d", q); break; }
		}
		fresh[a] = true;
	}

	void plain_step();
	void self_step();
	void run();
};

void Hist::plain_step()
{
	int a = r.below(K), b = (a + 1 + r.below(K - 1)) % K;  // b != a
	int L = len(a);
	int op = r.below(42);
	char A[8], Bn[8];
	snprintf(A, sizeof A, "S%d", a);
	snprintf(Bn, sizeof Bn, "S%d", b);
	str sa = A, sb = Bn;
	switch (op) {
	case 0: case 1: {  // += String (another object)
		bool tmp = r.chance(0.4) || len(b) > maxlen - L;
		if (tmp) { str x = text(pick_add(a)); before("append.String", sa + " += String" + show(x)); String t = exact(x); *S[a] += t; M[a] += x; }
		else { before("append.String", sa + " += " + sb); *S[a] += *S[b]; M[a] += M[b]; }
		after(a);
		break;
	}
	case 2: case 3: { str x = text(pick_add(a)); before("append.cstr", sa + " += " + show(x)); CBuf cb(x); *S[a] += (const char*)cb; M[a] += x; after(a); break; }
	case 4: case 5: { char ch = chr(); if (L >= maxlen) break; before("append.char", sa + vf::fmt(" += char 0x%02x", (unsigned char)ch)); *S[a] += ch; M[a] += ch; after(a); break; }
	case 6: {
		bool tmp = r.chance(0.4) || len(b) > maxlen - L;
		if (tmp) { str x = text(pick_add(a)); before("shl.String", sa + " << String" + show(x)); *S[a] << exact(x); M[a] += x; }
		else { before("shl.String", sa + " << " + sb); *S[a] << *S[b]; M[a] += M[b]; }
		after(a);
		break;
	}
	case 7: { str x = text(pick_add(a)); before("shl.cstr", sa + " << " + show(x)); CBuf cb(x); *S[a] << (const char*)cb; M[a] += x; after(a); break; }
	case 8: { char ch = chr(); if (L >= maxlen) break; before("shl.char", sa + vf::fmt(" << char 0x%02x", (unsigned char)ch)); *S[a] << ch; M[a] += ch; after(a); break; }
	case 9: { int q = (int)(r.next() >> r.below(33)); if (r.below(2)) q = -q; if (q == INT_MIN) q = 0; before("shl.int", sa + vf::fmt(" << int %d", q)); *S[a] << q; M[a] += vf::fmt("%d", q); after(a); break; }
	case 10: { unsigned q = (unsigned)(r.next() >> r.below(33)); before("shl.unsigned", sa + vf::fmt(" << unsigned %u", q)); *S[a] << q; M[a] += vf::fmt("%u", q); after(a); break; }
	case 11: { Long q = (Long)(r.next() >> r.below(64)); if (r.below(2)) q = -q; if (q == LLONG_MIN) q = 1; before("shl.Long", sa + vf::fmt(" << Long %lld", q)); *S[a] << q; M[a] += vf::fmt("%lld", q); after(a); break; }
	case 12: { ULong q = (ULong)(r.next() >> r.below(64)); before("shl.ULong", sa + vf::fmt(" << ULong %llu", q)); *S[a] << q; M[a] += vf::fmt("%llu", q); after(a); break; }
	case 13: {  // doubles/floats with a short exact decimal expansion: the only values whose text is unambiguous
		double q = r.range(-40000, 40000) / 8.0;
		if (r.below(2)) { before("shl.double", sa + vf::fmt(" << double %.15g", q)); *S[a] << q; }
		else { before("shl.float", sa + vf::fmt(" << float %.15g", q)); *S[a] << (float)q; }
		M[a] += vf::fmt("%.15g", q);
		after(a);
		break;
	}
	case 14: { bool q = r.below(2) != 0; before("shl.bool", sa + (q ? " << true" : " << false")); *S[a] << q; M[a] += q ? "true" : "false"; after(a); break; }
	case 15: case 16: { str x = text(pick_add(a)); before("append.ptr-n", sa + ".append(ptr " + show(x) + ", n)"); RawBuf rb(x); S[a]->append(rb.p, rb.n); M[a] += x; after(a); break; }
	case 17: case 18: { before("assign.String", sa + " = " + sb); *S[a] = *S[b]; M[a] = M[b]; after(a); break; }
	case 19: { int n = r.below(2) ? r.range(0, std::min(maxlen, 30)) : std::min(maxlen, L + pick_add(a)); str x = text(n); before("assign.cstr", sa + " = " + show(x)); CBuf cb(x); *S[a] = (const char*)cb; M[a] = x; after(a); break; }
	case 20: { int n = r.below(2) ? r.range(0, std::min(maxlen, 30)) : std::min(maxlen, L + pick_add(a)); str x = text(n); before("assign.ptr-n", sa + ".assign(ptr " + show(x) + ", n)"); RawBuf rb(x); S[a]->assign(rb.p, rb.n); M[a] = x; after(a); break; }
	case 21: {
		int w = r.below(4);
		if (w == 0) { int q = (int)(r.next() >> r.below(33)); before("assign.int", sa + vf::fmt(" = int %d", q)); *S[a] = q; M[a] = vf::fmt("%d", q); }
		else if (w == 1) { Long q = (Long)(r.next() >> (1 + r.below(63))); if (r.below(2)) q = -q; before("assign.Long", sa + vf::fmt(" = Long %lld", q)); *S[a] = q; M[a] = vf::fmt("%lld", q); }
		else if (w == 2) { ULong q = r.next() >> r.below(64); before("assign.ULong", sa + vf::fmt(" = ULong %llu", q)); *S[a] = q; M[a] = vf::fmt("%llu", q); }
		else { char ch = chr(); before("assign.char", sa + vf::fmt(" = char 0x%02x", (unsigned char)ch)); *S[a] = ch; M[a] = str(1, ch); }
		after(a);
		break;
	}
	case 22: case 23: case 24: {  // concatenation result assigned back (operands may be the target: the result is a temporary)
		int p = r.below(K), q = r.below(K), w = r.below(6);
		str x = text(w == 0 ? 0 : std::min(pick_add(p), 40));
		if (len(p) + (w == 0 ? len(q) : (int)x.size()) > maxlen) break;
		char ch = chr();
		CBuf cb(x);
		switch (w) {
		case 0: before("concat.String", sa + vf::fmt(" = S%d + S%d", p, q)); { str m = M[p] + M[q]; *S[a] = *S[p] + *S[q]; M[a] = m; } break;
		case 1: before("concat.cstr", sa + vf::fmt(" = S%d + ", p) + show(x)); { str m = M[p] + x; *S[a] = *S[p] + (const char*)cb; M[a] = m; } break;
		case 2: before("concat.char", sa + vf::fmt(" = S%d + char 0x%02x", p, (unsigned char)ch)); { str m = M[p] + ch; *S[a] = *S[p] + ch; M[a] = m; } break;
		case 3: before("concat.cstr-left", sa + " = " + show(x) + vf::fmt(" + S%d", p)); { str m = x + M[p]; *S[a] = (const char*)cb + *S[p]; M[a] = m; } break;
		case 4: before("concat.char-left", sa + vf::fmt(" = char 0x%02x + S%d", (unsigned char)ch, p)); { str m = ch + M[p]; *S[a] = ch + *S[p]; M[a] = m; } break;
		default: before("concat.ptr-n", sa + vf::fmt(" = S%d.concat(ptr ", p) + show(x) + ", n)"); { str m = M[p] + x; RawBuf rb(x); *S[a] = S[p]->concat(rb.p, rb.n); M[a] = m; } break;
		}
		after(a);
		break;
	}
	case 25: case 26: {  // substring / substr assigned (to the same or another String)
		int p = r.below(K), Lp = len(p), w = r.below(4);
		if (w == 0) { int i = r.range(0, Lp), j = r.range(i, Lp); before("substring", sa + vf::fmt(" = S%d.substring(%d,%d)", p, i, j)); str m = M[p].substr(i, j - i); *S[a] = S[p]->substring(i, j); M[a] = m; }
		else if (w == 1) { int i = r.range(0, Lp); before("substring1", sa + vf::fmt(" = S%d.substring(%d)", p, i)); str m = M[p].substr(i); *S[a] = S[p]->substring(i); M[a] = m; }
		else if (w == 2) { int i = r.range(-Lp, Lp), n = r.range(0, Lp + 2);
			// "at most n chars": counts far beyond the length (up to INT_MAX, the natural "to the end") are in range
			if (r.below(8) == 0) { static const int BIG[] = {INT_MAX, INT_MAX - 1, INT_MAX / 2 + 1, 1 << 30, 1000000}; n = BIG[r.below(5)]; } before("substr", sa + vf::fmt(" = S%d.substr(%d,%d)", p, i, n)); str m = m_substr(M[p], i, n); *S[a] = S[p]->substr(i, n); M[a] = m; }
		else { int i = r.range(-Lp, Lp); before("substr1", sa + vf::fmt(" = S%d.substr(%d)", p, i)); str m = m_substr(M[p], i, Lp); *S[a] = S[p]->substr(i); M[a] = m; }
		after(a);
		break;
	}
	case 27: { before("trim", sa + ".trim()"); String& ret = S[a]->trim(); M[a] = m_trim(M[a]); if (&ret != S[a].get()) c.fail("trim.ret", "trim() did not return *this"); after(a); break; }
	case 28: { int p = r.below(K); before("trimmed", sa + vf::fmt(" = S%d.trimmed()", p)); str m = m_trim(M[p]); *S[a] = S[p]->trimmed(); M[a] = m; after(a); break; }
	case 29: {  // surround with whitespace so that trim has work to do
		if (L + 8 > maxlen) break;
		str w1 = rnd(r, r.range(0, 4), " \t\n\r"), w2 = rnd(r, r.range(0, 4), " \t\n\r");
		before("pad-ws", sa + " = " + show(w1) + " + " + sa + " + " + show(w2));
		CBuf c1(w1), c2(w2);
		*S[a] = (const char*)c1 + *S[a] + (const char*)c2;
		M[a] = w1 + M[a] + w2;
		after(a);
		break;
	}
	case 30: { int n = r.below(3) ? r.range(0, L) : std::max(0, L - r.range(0, 2)); before("resize.shrink", sa + vf::fmt(".resize(%d)", n)); S[a]->resize(n); M[a].resize(n); after(a); break; }
	case 31: case 32: {  // resize(n) to a larger length keeps the old bytes; the new ones are the caller's to write
		int add = pick_add(a);
		str x = text(add);
		before("resize.grow", sa + vf::fmt(".resize(%d) then bytes %d.. filled with ", L + add, L) + show(x));
		S[a]->resize(L + add);
		if (S[a]->length() != L + add) c.fail("resize.grow.len", vf::fmt("length() = %d after resize(%d)", S[a]->length(), L + add));
		if (S[a]->data()[L + add] != 0) c.fail("resize.grow.nul", vf::fmt("no NUL at offset %d after resize", L + add));
		memcpy(S[a]->data() + L, x.data(), add);
		M[a] += x;
		after(a);
		break;
	}
	case 33: {
		int n = r.below(2) ? r.range(0, std::min(maxlen, 30)) : std::min(maxlen, L + pick_add(a));
		str x = text(n);
		before("resize.nokeep", sa + vf::fmt(".resize(%d, false) then filled with ", n) + show(x));
		S[a]->resize(n, false);
		if (S[a]->length() != n) c.fail("resize.nokeep.len", vf::fmt("length() = %d after resize(%d,false)", S[a]->length(), n));
		memcpy(S[a]->data(), x.data(), n);
		M[a] = x;
		after(a);
		break;
	}
	case 34: { int n = L + pick_add(a); before("resize.reserve", sa + vf::fmt(".resize(%d, true, false)", n)); S[a]->resize(n, true, false); after(a); break; }
	case 35: { char x = chr(), y = chr(); before("replaceme", sa + vf::fmt(".replaceme(0x%02x,0x%02x)", (unsigned char)x, (unsigned char)y)); S[a]->replaceme(x, y); std::replace(M[a].begin(), M[a].end(), x, y); after(a); break; }
	case 36: { before("clear", sa + ".clear()"); S[a]->clear(); M[a].clear(); after(a); break; }
	case 37: { if (!L) break; int i = r.below(L); char ch = chr(); before("setchar", sa + vf::fmt("[%d] = 0x%02x", i, (unsigned char)ch)); (*S[a])[i] = ch; M[a][i] = ch; after(a); break; }
	case 38: {
		int k = r.range(0, L);
		if (r.below(2)) { before("fix", sa + vf::fmt(".data()[%d]=0; fix()", k)); S[a]->data()[k] = 0; S[a]->fix(); }
		else { before("fix-n", sa + vf::fmt(".data()[%d]=0; fix(%d)", k, k)); S[a]->data()[k] = 0; S[a]->fix(k); }
		M[a].resize(k);
		after(a);
		break;
	}
	case 39: case 40: {
		int p = r.below(K), Lp = len(p);
		str x, y = text(r.range(0, 4));
		if (Lp && r.below(5)) { int i = r.below(Lp); x = M[p].substr(i, r.range(1, 3)); }
		else x = text(r.range(1, 3));
		if (r.below(6) == 0) y = x + y;
		str m = m_replace(M[p], x, y);
		if ((int)m.size() > maxlen) break;
		before("replace", sa + vf::fmt(" = S%d.replace(", p) + show(x) + ", " + show(y) + ")");
		*S[a] = S[p]->replace(exact(x), exact(y));
		M[a] = m;
		after(a);
		break;
	}
	default: { int n = r.below(2) ? r.range(0, 24) : std::min(maxlen, pick_add(a) + L); construct(a, n, false); after(a); break; }
	}
}

void Hist::self_step()
{
	int a = r.below(2);
	int L = len(a);
	char A[8];
	snprintf(A, sizeof A, "S%d", a);
	str sa = A;
	int op = r.below(14);
	switch (op) {
	case 0: case 1: if (2 * L > maxlen) break; before("self.append-self", sa + " += " + sa + vf::fmt("   [len %d cap %d]", L, S[a]->cap())); { str m = M[a] + M[a]; *S[a] += *S[a]; M[a] = m; } after(a); break;
	case 2: if (2 * L > maxlen) break; before("self.shl-self", sa + " << " + sa + vf::fmt("   [len %d cap %d]", L, S[a]->cap())); { str m = M[a] + M[a]; *S[a] << *S[a]; M[a] = m; } after(a); break;
	case 3: case 4: { int k = r.range(0, L); if (2 * L - k > maxlen) break; before("self.append-ptr", sa + " += *" + sa + vf::fmt(" + %d   [len %d cap %d]", k, L, S[a]->cap())); str m = M[a] + M[a].substr(k); *S[a] += cptr(a) + k; M[a] = m; after(a); break; }
	case 5: { int k = r.range(0, L), n = r.range(0, L - k); if (L + n > maxlen) break; before("self.append-ptr-n", sa + ".append(*" + sa + vf::fmt(" + %d, %d)   [len %d cap %d]", k, n, L, S[a]->cap())); str m = M[a] + M[a].substr(k, n); S[a]->append(cptr(a) + k, n); M[a] = m; after(a); break; }
	case 6: case 7: { int k = r.below(3) ? r.range(0, std::min(L, 4)) : r.range(0, L); before("self.assign-ptr", sa + " = *" + sa + vf::fmt(" + %d   [len %d cap %d]", k, L, S[a]->cap())); str m = M[a].substr(k); *S[a] = cptr(a) + k; M[a] = m; after(a); break; }
	case 8: { int k = r.range(0, L), n = r.range(0, L - k); before("self.assign-ptr-n", sa + ".assign(*" + sa + vf::fmt(" + %d, %d)   [len %d cap %d]", k, n, L, S[a]->cap())); str m = M[a].substr(k, n); S[a]->assign(cptr(a) + k, n); M[a] = m; after(a); break; }
	case 9: before("self.assign-self", sa + " = " + sa); *S[a] = *S[a]; after(a); break;
	case 10: { int i = r.range(0, L), j = r.range(i, L); if (L + j - i > maxlen) break; before("self.shl-substring", sa + " << " + sa + vf::fmt(".substring(%d,%d)", i, j)); str m = M[a] + M[a].substr(i, j - i); *S[a] << S[a]->substring(i, j); M[a] = m; after(a); break; }
	case 11: { int i = r.range(0, L), j = r.range(i, L); before("self.assign-substring", sa + " = " + sa + vf::fmt(".substring(%d,%d)", i, j)); str m = M[a].substr(i, j - i); *S[a] = S[a]->substring(i, j); M[a] = m; after(a); break; }
	case 12: if (2 * L > maxlen) break; before("self.assign-concat", sa + " = " + sa + " + " + sa); { str m = M[a] + M[a]; *S[a] = *S[a] + *S[a]; M[a] = m; } after(a); break;
	default: { if (!L || L >= maxlen) break; int i = r.below(L); before("self.append-own-char", sa + " += " + sa + vf::fmt("[%d]", i)); char ch = M[a][i]; *S[a] += (*S[a])[i]; M[a] += ch; after(a); break; }
	}
}

void Hist::run()
{
	al = alpha_chars(2 + r.below(3));
	int prof = r.below(20);
	int n0[K];
	if (prof < 7) { maxlen = 40; for (int i = 0; i < K; i++) n0[i] = r.range(0, 24); }
	else if (prof < 12) { maxlen = 130; for (int i = 0; i < K; i++) n0[i] = r.range(0, 50); }
	else if (prof < 17) { maxlen = 1100; for (int i = 0; i < K; i++) n0[i] = r.below(3) ? r.range(985, 1030) : r.range(0, 40); }
	else { maxlen = 3300; static const int base[] = {0, 500, 1000, 1015, 1500}; for (int i = 0; i < K; i++) n0[i] = base[r.below(5)] + r.range(0, 30); }
	if (self) {  // lengths at which doubling crosses a storage boundary
		static const int LS[] = {3, 7, 8, 9, 10, 12, 15, 16, 19, 20, 23, 24, 40, 47, 48, 100, 500, 511, 512, 513, 700, 1023, 1024, 1025, 1100, 1535};
		maxlen = 3300;
		for (int i = 0; i < K; i++) n0[i] = LS[r.below(sizeof(LS) / sizeof(LS[0]))];
		if (r.below(2)) maxlen = 60, n0[0] = r.range(1, 24), n0[1] = r.range(1, 24), n0[2] = 5;
	}
	c.desc(vf::fmt("alphabet of %d byte values, max length %d", (int)al.size(), maxlen));
	for (int i = 0; i < K; i++) { S[i].reset(new String()); fresh[i] = true; cap0[i] = 16; }
	for (int i = 0; i < K; i++) construct(i, n0[i], true);
	key = "ctor";
	after();
	int nops = r.range(5, 80);
	for (int i = 0; i < nops; i++) {
		if (self && r.below(10) < 6) self_step();
		else plain_step();
	}
	c.evals(steps);
	cnt.add("steps", steps);
	if (steps >= 5 && crossed >= 1) c.distinct(vf::fnv(c.curdesc()));
	if (c.want_sample() && crossed >= 2) c.sample(c.curdesc().substr(0, 1400));
}

static void mode_hist(vf::Ctx& c) { Hist h(c, false); h.run(); }
static void mode_hist_self(vf::Ctx& c) { Hist h(c, true); h.run(); }

// ------------------------------------------------------------------ pure functions
static int npos2m1(size_t p) { return p == str::npos ? -1 : (int)p; }

static str func_text(vf::Rng& r, const str& al, int* plen = 0)
{
	int k = r.below(20), n;
	if (k < 9) n = r.range(19, 40);        // heap, block of exactly n+1 bytes
	else if (k < 12) n = r.range(0, 15);   // inline
	else if (k < 14) n = r.range(16, 18);  // heap with 20-byte block
	else if (k < 18) n = r.range(41, 130);
	else n = r.range(131, 1100);
	if (plen) *plen = n;
	return rnd(r, n, al);
}

static void func_search(vf::Ctx& c, Counters& cnt, const str& t, const str& al)
{
	vf::Rng& r = c.rng;
	int n = (int)t.size();
	String s = exact(t);
	std::vector<int> froms;
	if (n <= 48) for (int i = 0; i <= n; i++) froms.push_back(i);
	else { froms.push_back(0); froms.push_back(n); froms.push_back(n - 1); for (int i = 0; i < 12; i++) froms.push_back(r.range(0, n)); }
	// characters: some present, one absent if the alphabet allows
	std::vector<char> chars;
	for (int i = 0; i < 4; i++) chars.push_back(n && r.below(2) ? t[r.below(n)] : al[r.below((uint32_t)al.size())]);
	for (int b = 1; b < 256; b++) if (t.find((char)b) == str::npos) { chars.push_back((char)b); break; }
	for (size_t k = 0; k < chars.size(); k++) {
		char ch = chars[k];
		Desc D(c, "String" + show(t));
		for (size_t f = 0; f < froms.size(); f++) {
			D.tail(".indexOf(char 0x%02x, %d)", (unsigned char)ch, froms[f]);
			int got = s.indexOf(ch, froms[f]), want = npos2m1(t.find(ch, froms[f]));
			if (got != want) c.fail("indexOf.char", vf::fmt("got %d want %d", got, want));
		}
		c.desc("String" + show(t) + vf::fmt(".lastIndexOf/contains(char 0x%02x)", (unsigned char)ch));
		int got = s.lastIndexOf(ch), want = npos2m1(t.rfind(ch));
		if (got != want) c.fail("lastIndexOf.char", vf::fmt("got %d want %d", got, want));
		if (s.indexOf(ch) != npos2m1(t.find(ch))) c.fail("indexOf.char.default", "indexOf(c) differs from find");
		if (s.contains(ch) != (t.find(ch) != str::npos)) c.fail("contains.char", "contains(char) differs from find");
		c.evals(froms.size() + 3);
		cnt.add("eval:indexOf(char)", froms.size());
	}
	// patterns (non-empty)
	std::vector<str> pats;
	for (int i = 0; i < 3 && n; i++) { int p = r.below(n); pats.push_back(t.substr(p, r.range(1, 5))); }
	if (n) { str m = t.substr(r.below(n), r.range(1, 6)); m[r.below((uint32_t)m.size())] = al[r.below((uint32_t)al.size())]; pats.push_back(m); }
	if (n) pats.push_back(t);
	pats.push_back(t + al[0]);                                        // longer than the text
	if (n) pats.push_back(t.substr(n - std::min(n, 3)) + al[r.below((uint32_t)al.size())]);  // matches up to the end, then runs past it
	pats.push_back(rnd(r, r.range(1, 3), al));
	if (n >= 2) pats.push_back(t.substr(n - 2));
	for (size_t k = 0; k < pats.size(); k++) {
		const str& p = pats[k];
		CBuf cb(p);
		String ps = exact(p);
		Desc D(c, "String" + show(t) + ".indexOf(" + show(p) + ", ");
		for (size_t f = 0; f < froms.size(); f++) {
			D.tail("%d)", froms[f]);
			int want = npos2m1(t.find(p, froms[f]));
			int g1 = s.indexOf((const char*)cb, froms[f]);
			if (g1 != want) c.fail("indexOf.cstr", vf::fmt("got %d want %d", g1, want));
			int g2 = s.indexOf(ps, froms[f]);
			if (g2 != want) c.fail("indexOf.String", vf::fmt("got %d want %d", g2, want));
		}
		c.desc("String" + show(t) + ".lastIndexOf/contains(" + show(p) + ")");
		int got = s.lastIndexOf((const char*)cb), want = npos2m1(t.rfind(p));
		if (got != want) c.fail("lastIndexOf.cstr", vf::fmt("got %d want %d", got, want));
		bool has = t.find(p) != str::npos;
		if (s.contains((const char*)cb) != has || s.contains(ps) != has) c.fail("contains.str", "contains differs from find");
		if (s.indexOf((const char*)cb) != npos2m1(t.find(p))) c.fail("indexOf.cstr.default", "indexOf(s) differs from find");
		c.evals(2 * froms.size() + 4);
		cnt.add("eval:indexOf(str)", 2 * froms.size());
		cnt.add(has ? "search:pattern present" : "search:pattern absent");
	}
}

static void func_pred(vf::Ctx& c, Counters& cnt, const str& t, const str& al)
{
	vf::Rng& r = c.rng;
	int n = (int)t.size();
	String s = exact(t);
	std::vector<str> ps;
	for (int i = 0; i < 3; i++) {
		int k = r.range(1, std::max(1, std::min(n, 6)));
		if (n >= k) {
			ps.push_back(t.substr(0, k));
			ps.push_back(t.substr(n - k));
			str m = t.substr(0, k); m[k - 1] = al[r.below((uint32_t)al.size())]; ps.push_back(m);
			m = t.substr(n - k); m[0] = al[r.below((uint32_t)al.size())]; ps.push_back(m);
		}
	}
	if (n) ps.push_back(t);
	ps.push_back(t + al[0]);
	ps.push_back(al[0] + t);
	ps.push_back(rnd(r, r.range(1, 4), al));
	for (size_t k = 0; k < ps.size(); k++) {
		const str& p = ps[k];
		CBuf cb(p);
		String q = exact(p);
		bool sw = t.size() >= p.size() && t.compare(0, p.size(), p) == 0;
		bool ew = t.size() >= p.size() && t.compare(t.size() - p.size(), p.size(), p) == 0;
		c.desc("String" + show(t) + ".startsWith/endsWith(" + show(p) + ")");
		if (s.startsWith(q) != sw) c.fail("startsWith.String", vf::fmt("got %d want %d", !sw, sw));
		if (s.startsWith((const char*)cb) != sw) c.fail("startsWith.cstr", vf::fmt("got %d want %d", !sw, sw));
		if (s.endsWith(q) != ew) c.fail("endsWith.String", vf::fmt("got %d want %d", !ew, ew));
		if (s.endsWith((const char*)cb) != ew) c.fail("endsWith.cstr", vf::fmt("got %d want %d", !ew, ew));
		char ch = p[0];
		bool swc = n > 0 && t[0] == ch, ewc = n > 0 && t[n - 1] == ch;
		if (s.startsWith(ch) != swc) c.fail("startsWith.char", vf::fmt("char 0x%02x: got %d want %d", (unsigned char)ch, !swc, swc));
		if (s.endsWith(ch) != ewc) c.fail("endsWith.char", vf::fmt("char 0x%02x: got %d want %d", (unsigned char)ch, !ewc, ewc));
		c.evals(6);
		cnt.add(sw ? "pred:startsWith true" : "pred:startsWith false");
		cnt.add(ew ? "pred:endsWith true" : "pred:endsWith false");
	}
}

static void check_parts(vf::Ctx& c, const Array<String>& got, const std::vector<str>& want, const str& key)
{
	if (got.length() != (int)want.size()) {
		str g;
		for (int i = 0; i < got.length() && i < 12; i++) g += "[" + vf::vis(*got[i], got[i].length(), 30) + "]";
		str w;
		for (size_t i = 0; i < want.size() && i < 12; i++) w += "[" + vf::vis(want[i], 30) + "]";
		c.fail(key + ".count", vf::fmt("%d pieces, model %d; got %s model %s", got.length(), (int)want.size(), g.c_str(), w.c_str()));
	}
	for (int i = 0; i < got.length(); i++) verify(c, got[i], want[i], key + ".piece", vf::fmt("piece %d", i).c_str());
}

static void func_split(vf::Ctx& c, Counters& cnt, const str& t, const str& al)
{
	vf::Rng& r = c.rng;
	int n = (int)t.size();
	String s = exact(t);
	std::vector<str> seps;
	seps.push_back(str(1, al[r.below((uint32_t)al.size())]));
	seps.push_back(rnd(r, 2, al));
	seps.push_back(str(2, al[0]));  // "aa": overlaps itself
	seps.push_back(str(3, al[0]));
	if (al.size() > 1) { str x; x += al[0]; x += al[1]; x += al[0]; seps.push_back(x); }  // "aba"
	if (n) { int p = r.below(n); seps.push_back(t.substr(p, r.range(1, 4))); }
	if (n) seps.push_back(t);
	seps.push_back(t + al[0]);
	if (n) seps.push_back(t.substr(0, r.range(1, std::min(n, 3))));  // separator at the very start
	if (n) seps.push_back(t.substr(n - r.range(1, std::min(n, 3))));  // separator at the very end
	for (size_t k = 0; k < seps.size(); k++) {
		const str& sep = seps[k];
		String q = exact(sep);
		std::vector<str> want = m_split(t, sep);
		c.desc("String" + show(t) + ".split(" + show(sep) + ") then join");
		Array<String> got = s.split(q);
		check_parts(c, got, want, "split");
		String back = got.join(q);
		verify(c, back, t, "split-join", "join(split())");
		Array<String> out;
		out << String("stale") << String("stale entry that must disappear, longer than inline");
		s.split(q, out);
		check_parts(c, out, want, "split.out");
		c.evals(3);
		cnt.add(want.size() > 1 ? "split:separator present" : "split:separator absent");
		cnt.add("split:pieces", want.size());
		if (want.size() > 1) c.distinct(vf::fnv(t + '\0' + sep));
	}
	// join of arbitrary arrays (empty array, empty pieces, empty separator included)
	for (int rep = 0; rep < 3; rep++) {
		std::vector<str> v;
		int m = r.range(0, 6);
		for (int i = 0; i < m; i++) v.push_back(rnd(r, r.below(3) ? r.range(0, 6) : r.range(14, 30), al));
		str sep = rnd(r, r.range(0, 3), al);
		Array<String> a;
		for (int i = 0; i < m; i++) a << exact(v[i]);
		c.desc(vf::fmt("join of %d pieces with ", m) + show(sep));
		String j = a.join(exact(sep));
		verify(c, j, m_join(v, sep), "join");
		c.evals(1);
	}
	// key/value split: distinct non-empty identifier keys, values free of both separators
	{
		int m = r.range(1, 6);
		str txt;
		std::vector<str> ks, vs;
		for (int i = 0; i < m; i++) {
			ks.push_back(vf::fmt("k%d%s", i, rnd(r, r.range(0, 20), "xyz").c_str()));
			vs.push_back(rnd(r, r.range(0, 25), "uvw 123"));
			if (i) txt += ",";
			txt += ks[i] + "=" + vs[i];
		}
		c.desc("String" + show(txt) + ".split(\",\", \"=\")");
		asl::Dic<String> d = exact(txt).split(",", "=");
		if (d.length() != m) c.fail("split2.count", vf::fmt("%d entries, model %d", d.length(), m));
		for (int i = 0; i < m; i++) {
			if (!d.has(exact(ks[i]))) c.fail("split2.key", "key " + ks[i] + " missing");
			verify(c, d[exact(ks[i])], vs[i], "split2.value");
		}
		c.evals(1);
	}
	// key/value split, general: values that contain the key/value separator again, multi-byte separators, repeated keys,
	// pairs without separator or with an empty key (both skipped); model: split by sep1, cut each piece at the FIRST sep2
	for (int rep = 0; rep < 2; rep++) {
		static const char* S1[] = {",", ";", "&&", "\n", ", "};
		static const char* S2[] = {"=", ":", "=>", "==", "::"};
		str sep1 = S1[r.below(5)], sep2 = S2[r.below(5)];
		int m = r.range(0, 7);
		str txt;
		for (int i = 0; i < m; i++) {
			if (i) txt += sep1;
			int shape = (int)r.below(10);
			str k = shape == 0 ? str() : rnd(r, r.range(1, r.below(4) ? 3 : 18), "abk");
			str v = rnd(r, r.range(0, r.below(4) ? 8 : 30), "uv1 =:>");
			if (shape == 1) txt += k;                      // no key/value separator at all
			else txt += k + sep2 + v;
		}
		std::map<str, str> want;
		std::vector<str> pairs = m_split(txt, sep1);
		for (size_t i = 0; i < pairs.size(); i++) {
			size_t j = pairs[i].find(sep2);
			if (j != str::npos && j > 0) want[pairs[i].substr(0, j)] = pairs[i].substr(j + sep2.size());
		}
		c.desc("String" + show(txt) + ".split(" + show(sep1) + ", " + show(sep2) + ")");
		asl::Dic<String> d = exact(txt).split(exact(sep1), exact(sep2));
		if (d.length() != (int)want.size()) c.fail("split2.count", vf::fmt("%d entries, model %d", d.length(), (int)want.size()));
		bool again = false;
		for (std::map<str, str>::iterator it = want.begin(); it != want.end(); ++it) {
			if (!d.has(exact(it->first))) { c.fail("split2.key", "key " + show(it->first) + " missing"); continue; }
			verify(c, d[exact(it->first)], it->second, "split2.value");
			if (it->second.find(sep2) != str::npos) again = true;
		}
		if (again) cnt.add("split2:value contains the key/value separator");
		c.evals(1);
	}
}

static void func_ws(vf::Ctx& c, Counters& cnt, const str& t0)
{
	vf::Rng& r = c.rng;
	str t = t0;
	// make leading/trailing whitespace likely
	if (r.below(2)) t = rnd(r, r.range(0, 5), " \t\n\r") + t;
	if (r.below(2)) t += rnd(r, r.range(0, 5), " \t\n\r");
	if (r.below(12) == 0) t = rnd(r, r.range(0, 30), " \t\n\r");  // whitespace only
	// bytes next to the whitespace set that are not in it (\v, \f, 0x1f, 0x08, 0x0e, 0x7f, 0xa0) at the edges and inside
	if (r.below(6) == 0) { static const char nearws[] = "\x0b\x0c\x1f\x08\x0e\x7f\xa0\x85"; int k = r.range(1, 3); for (int i = 0; i < k; i++) { char ch = nearws[r.below(8)]; int w = r.below(3); if (w == 0) t = str(1, ch) + t; else if (w == 1) t += ch; else t.insert(t.begin() + r.below((uint32_t)t.size() + 1), ch); } cnt.add("ws:near-whitespace bytes placed"); }
	String s = exact(t);
	c.desc("String" + show(t) + ".split()");
	std::vector<str> want = m_splitws(t);
	check_parts(c, s.split(), want, "splitws");
	Array<String> out;
	out << String("stale");
	s.split(out);
	check_parts(c, out, want, "splitws.out");
	c.desc("String" + show(t) + ".trimmed()");
	str wt = m_trim(t);
	String tr = s.trimmed();
	verify(c, tr, wt, "trimmed");
	verify(c, s, t, "trimmed.source", "source");
	c.desc("String" + show(t) + ".trim()");
	String s2 = exact(t);
	s2.trim();
	verify(c, s2, wt, "trim");
	c.evals(4);
	cnt.add("ws:tokens", want.size());
	cnt.add(wt.size() != t.size() ? "trim:removed something" : "trim:nothing to remove");
	if (wt.empty() && !t.empty()) cnt.add("trim:whitespace only");
}

static void func_replace(vf::Ctx& c, Counters& cnt, const str& t, const str& al)
{
	vf::Rng& r = c.rng;
	int n = (int)t.size();
	String s = exact(t);
	for (int rep = 0; rep < 10; rep++) {
		str a, b;
		int k = r.below(8);
		if (k < 3 && n) a = t.substr(r.below(n), r.range(1, 4));
		else if (k == 3) a = str(2, al[0]);
		else if (k == 4 && n) a = t;
		else if (k == 5) a = t + al[0];
		else if (k == 6 && n) a = t.substr(n - std::min(n, r.range(1, 3)));
		else a = rnd(r, r.range(1, 3), al);
		int kb = r.below(6);
		if (kb == 0) b = "";
		else if (kb == 1) b = a;
		else if (kb == 2) b = a + a;
		else if (kb == 3) b = rnd(r, r.range(1, 2), al) + a + rnd(r, r.range(0, 2), al);
		else b = rnd(r, r.range(1, 30), al);
		str want = m_replace(t, a, b);
		c.desc("String" + show(t) + ".replace(" + show(a) + ", " + show(b) + ")");
		String got = s.replace(exact(a), exact(b));
		verify(c, got, want, "replace");
		verify(c, s, t, "replace.source", "source");
		c.evals(1);
		cnt.add(t.find(a) != str::npos ? "replace:pattern present" : "replace:pattern absent");
	}
	for (int rep = 0; rep < 3; rep++) {
		char x = n && r.below(2) ? t[r.below(n)] : al[r.below((uint32_t)al.size())], y = al[r.below((uint32_t)al.size())];
		c.desc("String" + show(t) + vf::fmt(".replaceme(0x%02x,0x%02x)", (unsigned char)x, (unsigned char)y));
		String s2 = exact(t);
		str w = t;
		std::replace(w.begin(), w.end(), x, y);
		s2.replaceme(x, y);
		verify(c, s2, w, "replaceme");
		c.evals(1);
	}
}

static void func_substring(vf::Ctx& c, Counters& cnt, const str& t)
{
	vf::Rng& r = c.rng;
	int n = (int)t.size();
	String s = exact(t);
	Desc D(c, "String" + show(t));
	if (n <= 26) {
		for (int i = 0; i <= n; i++)
			for (int j = i; j <= n; j++) {
				D.tail(".substring(%d,%d)", i, j);
				verify(c, s.substring(i, j), t.substr(i, j - i), "substring");
			}
		for (int i = 0; i <= n; i++) { D.tail(".substring(%d)", i); verify(c, s.substring(i), t.substr(i), "substring1"); }
		for (int i = -n; i <= n; i++) {
			for (int m = 0; m <= n + 2; m++) {
				D.tail(".substr(%d,%d)", i, m);
				verify(c, s.substr(i, m), m_substr(t, i, m), "substr");
			}
			D.tail(".substr(%d)", i);
			verify(c, s.substr(i), m_substr(t, i, n), "substr1");
		}
		int e = (n + 1) * (n + 2) / 2 + (n + 1) + (2 * n + 1) * (n + 4);
		c.evals(e);
		cnt.add("eval:substring (all index pairs of a short string)", e);
		cnt.add("substring:strings enumerated completely");
	}
	else {
		for (int rep = 0; rep < 120; rep++) {
			int i = r.range(0, n), j = r.range(i, n);
			if (rep < 6) { i = rep & 1 ? 0 : i; j = rep & 2 ? n : j; }
			D.tail(".substring(%d,%d)", i, j);
			verify(c, s.substring(i, j), t.substr(i, j - i), "substring");
			int i2 = r.range(-n, n), m = r.range(0, n + 2);
			D.tail(".substr(%d,%d)", i2, m);
			verify(c, s.substr(i2, m), m_substr(t, i2, m), "substr");
		}
		c.evals(240);
		cnt.add("eval:substring (sampled)", 240);
	}
	verify(c, s, t, "substring.source", "source");
}

static void func_compare(vf::Ctx& c, Counters& cnt, const str& t, const str& al)
{
	vf::Rng& r = c.rng;
	int n = (int)t.size();
	String s = exact(t);
	std::vector<str> us;
	us.push_back(t);
	if (n) { str u = t; int p = r.below(n); u[p] = (char)(((unsigned char)u[p] ^ 0x80) ? ((unsigned char)u[p] ^ 0x80) : 1); us.push_back(u); }  // flips the sign bit: unsigned order matters
	if (n) { str u = t; u[r.below(n)] = al[r.below((uint32_t)al.size())]; us.push_back(u); }
	if (n) { str u = t; u[n - 1] = al[r.below((uint32_t)al.size())]; us.push_back(u); }
	if (n) us.push_back(t.substr(0, r.below(n)));
	us.push_back(t + al[r.below((uint32_t)al.size())]);
	us.push_back(rnd(r, r.range(0, n + 2), al));
	us.push_back(str(1, al[r.below((uint32_t)al.size())]));
	for (size_t k = 0; k < us.size(); k++) {
		const str& u = us[k];
		String q = exact(u);
		CBuf cb(u);
		int want = sgn(t.compare(u));
		c.desc("String" + show(t) + " compared with " + show(u));
		if ((s == q) != (want == 0)) c.fail("eq.String", vf::fmt("== gave %d, model order %d", s == q, want));
		if ((s != q) != (want != 0)) c.fail("ne.String", vf::fmt("!= gave %d, model order %d", s != q, want));
		if ((s == (const char*)cb) != (want == 0)) c.fail("eq.cstr", vf::fmt("== gave %d, model order %d", s == (const char*)cb, want));
		if ((s != (const char*)cb) != (want != 0)) c.fail("ne.cstr", vf::fmt("!= gave %d, model order %d", s != (const char*)cb, want));
		if ((s < q) != (want < 0)) c.fail("lt", vf::fmt("< gave %d, model order %d", s < q, want));
		if ((q < s) != (want > 0)) c.fail("lt.swapped", vf::fmt("swapped < gave %d, model order %d", q < s, want));
		if (sgn(s.compare(q)) != want) c.fail("compare.String", vf::fmt("compare gave %d, model order %d", s.compare(q), want));
		if (sgn(s.compare((const char*)cb)) != want) c.fail("compare.cstr", vf::fmt("compare gave %d, model order %d", s.compare((const char*)cb), want));
		if (u.size() == 1) {
			if ((s == u[0]) != (want == 0)) c.fail("eq.char", "== char differs");
			if ((s != u[0]) != (want != 0)) c.fail("ne.char", "!= char differs");
		}
		c.evals(8);
		cnt.add(want == 0 ? "compare:equal" : want < 0 ? "compare:less" : "compare:greater");
	}
	static const int RN[] = {0, 1, 14, 15, 16, 17, 18, 19, 20, 23, 24, 25, 1023, 1024, 1025};
	for (int rep = 0; rep < 4; rep++) {
		int m = r.below(3) ? RN[r.below(15)] : r.range(0, 300);
		char ch = al[r.below((uint32_t)al.size())];
		c.desc(vf::fmt("String::repeat(0x%02x, %d)", (unsigned char)ch, m));
		verify(c, String::repeat(ch, m), str(m, ch), "repeat");
		c.evals(1);
	}
}

static double rnd_double(vf::Rng& r)
{
	int k = r.below(6);
	if (k == 0) return r.range(-100000, 100000) / 64.0;
	if (k == 1) return (double)(Long)(r.next() >> r.below(64)) * (r.below(2) ? 1 : -1);
	if (k == 2) return r.unit() * pow(10.0, r.range(-30, 30)) * (r.below(2) ? 1 : -1);
	if (k == 3) return r.range(-999999, 999999) / 1000.0;
	for (;;) {
		uint64_t b = r.next();
		double d;
		memcpy(&d, &b, 8);
		if (d == d && d - d == 0) return d;
	}
}

static void func_parse(vf::Ctx& c, Counters& cnt)
{
	vf::Rng& r = c.rng;
	for (int rep = 0; rep < 40; rep++) {
		// integers through several printf shapes (zero padding makes the text a heap String of exactly len+1 bytes)
		int x = (int)(r.next() >> r.below(33));
		if (r.below(2)) x = -x;
		static const char* IF[] = {"%d", "%019d", "%020d", "%024d"};
		str txt = vf::fmt(IF[r.below(4)], x);
		c.desc("String" + show(txt) + " toInt/int()/toLong");
		String s = exact(txt);
		if (s.toInt() != x) c.fail("parse.toInt", vf::fmt("toInt() = %d want %d", s.toInt(), x));
		if ((int)s != x) c.fail("parse.int-cast", vf::fmt("int(s) = %d want %d", (int)s, x));
		if (s.to<int>() != x) c.fail("parse.to-int", vf::fmt("to<int>() = %d want %d", s.to<int>(), x));
		if (s.toLong() != (Long)x) c.fail("parse.int.toLong", vf::fmt("toLong() = %lld want %d", s.toLong(), x));
		Long y = (Long)(r.next() >> r.below(64));
		if (r.below(2)) y = -y;
		static const char* LF[] = {"%lld", "%020lld", "%024lld"};
		txt = vf::fmt(LF[r.below(3)], y);
		c.desc("String" + show(txt) + " toLong/Long()");
		String s2 = exact(txt);
		if (s2.toLong() != y) c.fail("parse.toLong", vf::fmt("toLong() = %lld want %lld", s2.toLong(), y));
		if ((Long)s2 != y) c.fail("parse.Long-cast", vf::fmt("Long(s) = %lld want %lld", (Long)s2, y));
		// doubles: toDouble()/double() must equal strtod of the same text
		double d = rnd_double(r);
		static const char* DF[] = {"%.17g", "%.15g", "%g", "%f", "%e", "%.3f", "%.20e"};
		txt = vf::fmt(DF[r.below(7)], d);
		c.desc("String" + show(txt) + " toDouble/double()");
		String s3 = exact(txt);
		double want = strtod(txt.c_str(), 0);
		double g1 = s3.toDouble(), g2 = (double)s3;
		if (memcmp(&g1, &want, 8) && !(g1 == want)) c.fail("parse.toDouble", vf::fmt("toDouble() = %.17g, strtod = %.17g", g1, want));
		if (memcmp(&g2, &want, 8) && !(g2 == want)) c.fail("parse.double-cast", vf::fmt("double(s) = %.17g, strtod = %.17g", g2, want));
		float f1 = s3.toFloat();
		if (!(f1 == (float)want)) c.fail("parse.toFloat", vf::fmt("toFloat() = %.9g, (float)strtod = %.9g", f1, (float)want));
		// float(s) uses asl's own parser: judged within 1e-6 relative on <= 9-digit texts of moderate magnitude, exactness only recorded
		float fv = (float)(r.unit() * pow(10.0, r.range(-20, 20)) * (r.below(2) ? 1 : -1));
		if (r.below(3) == 0) fv = (float)(r.range(-100000, 100000) / 16.0);
		txt = vf::fmt(r.below(2) ? "%.9g" : "%.7g", fv);
		c.desc("String" + show(txt) + " float()");
		String s4 = exact(txt);
		float fg = (float)s4, fw = strtof(txt.c_str(), 0);
		if (!(fabs((double)fg - fw) <= 1e-6 * fabs((double)fw))) c.fail("parse.float-cast", vf::fmt("float(s) = %.9g, strtof = %.9g", fg, fw));
		cnt.add(fg == fw ? "parse:float() exact" : "parse:float() within 1e-6 but not exact (recorded)");
		c.evals(10);
	}
	cnt.add("eval:parse", 400);
}

static void mode_func(vf::Ctx& c)
{
	vf::Rng& r = c.rng;
	Counters cnt(c);
	int group = (int)(c.idx % 8);
	str al = alpha_chars(group == 3 ? (r.below(2) ? 5 : 3) : r.below(NALPHA));
	int n = 0;
	str t = func_text(r, al, &n);
	if (group == 5 && r.below(2)) { n = r.below(4) ? r.range(19, 26) : r.range(0, 18); t = rnd(r, n, al); }
	cnt.add(n < 16 ? "subject:inline" : n < 19 ? "subject:heap 20-byte block" : "subject:heap exact block");
	switch (group) {
	case 0: func_search(c, cnt, t, al); break;
	case 1: func_pred(c, cnt, t, al); break;
	case 2: func_split(c, cnt, t, al); break;
	case 3: func_ws(c, cnt, t); break;
	case 4: func_replace(c, cnt, t, al); break;
	case 5: func_substring(c, cnt, t); break;
	case 6: func_compare(c, cnt, t, al); break;
	default: func_parse(c, cnt); t = vf::fmt("parse%llu", (unsigned long long)r.next()); break;
	}
	static const char* GN[] = {"search", "predicates", "split/join", "whitespace split/trim", "replace", "substring", "compare/repeat", "number parsing"};
	cnt.add(str("group:") + GN[group]);
	if (!t.empty()) c.distinct(vf::fnv(t, (uint64_t)group + 77));
	if (c.want_sample()) c.sample(str(GN[group]) + ": last evaluation " + c.curdesc().substr(0, 300));
}

// ------------------------------------------------------------------ integers <-> text
#define INT_FAIL(key, ...) do { c.desc(vf::fmt(__VA_ARGS__)); c.fail(key, vf::fmt(__VA_ARGS__)); } while (0)

static inline void chk_int(vf::Ctx& c, int x)
{
	char ref[16];
	int n = snprintf(ref, sizeof ref, "%d", x);
	String s(x);
	if (s.length() != n || memcmp(*s, ref, n + 1) != 0) INT_FAIL("int.text", "String(int %d) = '%s' length %d, snprintf '%s'", x, vf::vis(*s, strlen(*s)).c_str(), s.length(), ref);
	if (s.toInt() != x) INT_FAIL("int.toInt", "String(int %d).toInt() = %d", x, s.toInt());
	if ((int)s != x) INT_FAIL("int.cast", "int(String(int %d)) = %d", x, (int)s);
	if (s.toLong() != (Long)x) INT_FAIL("int.toLong", "String(int %d).toLong() = %lld", x, s.toLong());
}

static inline void chk_uint(vf::Ctx& c, unsigned x)
{
	char ref[16];
	int n = snprintf(ref, sizeof ref, "%u", x);
	String s(x);
	if (s.length() != n || memcmp(*s, ref, n + 1) != 0) INT_FAIL("unsigned.text", "String(unsigned %u) = '%s' length %d, snprintf '%s'", x, vf::vis(*s, strlen(*s)).c_str(), s.length(), ref);
	if ((unsigned)s != x) INT_FAIL("unsigned.cast", "unsigned(String(unsigned %u)) = %u", x, (unsigned)s);
	if (s.toLong() != (Long)x) INT_FAIL("unsigned.toLong", "String(unsigned %u).toLong() = %lld", x, s.toLong());
}

static inline void chk_long(vf::Ctx& c, Long x)
{
	char ref[32];
	int n = snprintf(ref, sizeof ref, "%lld", x);
	String s(x);
	if (s.length() != n || memcmp(*s, ref, n + 1) != 0) INT_FAIL("Long.text", "String(Long %lld) = '%s' length %d, snprintf '%s'", x, vf::vis(*s, strlen(*s)).c_str(), s.length(), ref);
	if (s.toLong() != x) INT_FAIL("Long.toLong", "String(Long %lld).toLong() = %lld", x, s.toLong());
	if ((Long)s != x) INT_FAIL("Long.cast", "Long(String(Long %lld)) = %lld", x, (Long)s);
}

static inline void chk_ulong(vf::Ctx& c, ULong x)
{
	char ref[32];
	int n = snprintf(ref, sizeof ref, "%llu", x);
	String s(x);
	if (s.length() != n || memcmp(*s, ref, n + 1) != 0) INT_FAIL("ULong.text", "String(ULong %llu) = '%s' length %d, snprintf '%s'", x, vf::vis(*s, strlen(*s)).c_str(), s.length(), ref);
	// the only 64-bit parser is toLong(); values >= 2^63 come back through its two's-complement wrap
	if ((ULong)s.toLong() != x) INT_FAIL(x >> 63 ? "ULong.back.high" : "ULong.back", "(ULong)String(ULong %llu).toLong() = %llu", x, (ULong)s.toLong());
}

static void boundaries64(std::vector<ULong>& v)
{
	for (int k = 0; k < 64; k++) { ULong p = 1ULL << k; v.push_back(p - 1); v.push_back(p); v.push_back(p + 1); }
	ULong p = 1;
	for (int k = 0; k < 20; k++) { v.push_back(p - 1); v.push_back(p); v.push_back(p + 1); if (k < 19) p *= 10; }
	v.push_back(0); v.push_back(ULLONG_MAX); v.push_back(ULLONG_MAX - 1);
	v.push_back((ULong)LLONG_MAX); v.push_back((ULong)LLONG_MAX + 1); v.push_back((ULong)LLONG_MAX + 2); v.push_back((ULong)LLONG_MAX - 1);
	v.push_back((ULong)INT_MAX); v.push_back((ULong)INT_MAX + 1); v.push_back((ULong)UINT_MAX); v.push_back((ULong)UINT_MAX + 1);
	// the constructors switch buffer size at +-10^15 / -10^14
	v.push_back(999999999999999ULL); v.push_back(1000000000000000ULL); v.push_back(99999999999999ULL); v.push_back(100000000000000ULL);
}

static void mode_ints(vf::Ctx& c)
{
	vf::Rng& r = c.rng;
	Counters cnt(c);
	if (c.idx == 0) {
		std::vector<ULong> b;
		boundaries64(b);
		for (size_t i = 0; i < b.size(); i++) {
			ULong u = b[i];
			chk_ulong(c, u);
			if ((Long)u != LLONG_MIN) chk_long(c, (Long)u);
			if ((Long)(0 - u) != LLONG_MIN) chk_long(c, (Long)(0 - u));
			if (u <= UINT_MAX) { chk_uint(c, (unsigned)u); chk_int(c, (int)(unsigned)u); chk_int(c, (int)(0u - (unsigned)u)); }
		}
		chk_int(c, INT_MIN); chk_int(c, INT_MAX); chk_int(c, -1); chk_int(c, 0);
		chk_long(c, LLONG_MAX); chk_long(c, LLONG_MIN + 1); chk_long(c, -1); chk_long(c, (Long)INT_MIN); chk_long(c, (Long)INT_MIN - 1);
		c.evals(b.size() * 6);
		cnt.add("ints:boundary values", b.size());
		c.distinct(1);
		if (c.want_sample()) c.sample(vf::fmt("boundary set: 2^k-1,2^k,2^k+1 (k<64), 10^k-1,10^k,10^k+1 (k<20), their negatives, INT/LLONG/UINT/ULLONG limits (%d values; LLONG_MIN is in mode llmin)", (int)b.size()));
		return;
	}
	long blk = c.opt->param("blk", 16384);
	bool only64 = c.opt->param("only64", 0) != 0;
	for (long i = 0; i < blk; i++) {
		uint64_t a = r.next(), b = r.next();
		int sh = (int)(b & 63);
		ULong u = a >> sh;                 // every magnitude class equally likely
		Long l = (Long)(r.next() >> (b >> 8 & 63));
		if (b >> 16 & 1) l = -l;
		if (l == LLONG_MIN) l = 0;
		chk_ulong(c, u);
		chk_long(c, l);
		if (!only64) {
			unsigned w = (unsigned)(a >> 32) >> (sh & 31);
			chk_uint(c, w);
			int q = (int)((unsigned)a >> (b >> 24 & 31));
			if (b >> 32 & 1) q = -q;
			chk_int(c, q);
			chk_int(c, (int)(unsigned)(a >> 13));  // full-range pattern
		}
	}
	uint64_t e = (uint64_t)blk * (only64 ? 2 : 5);
	c.evals(e);
	cnt.add(only64 ? "ints:random 64-bit values" : "ints:random values (all four types)", e);
	c.distinct(c.idx + 1000);
	if (c.want_sample()) c.sample(vf::fmt("block of %ld random values per type, magnitudes spread over all bit lengths", blk));
}

// exhaustive when blockbits = 20 and cases = 4096: case idx = the 32-bit patterns idx*2^20 .. +2^blockbits, each taken as int and as unsigned
static void mode_ints32(vf::Ctx& c)
{
	long bits = c.opt->param("blockbits", 20);
	uint64_t first = (uint64_t)c.idx << 20, count = 1ULL << bits;  // blockbits < 20 (quick tier): the head of every 2^20 region
	if (first > 0xffffffffULL) return;
	for (uint64_t v = first; v < first + count; v++) {
		chk_int(c, (int)(unsigned)v);
		chk_uint(c, (unsigned)v);
	}
	c.evals(2 * count);
	c.count("ints32:32-bit patterns enumerated (each as int and as unsigned)", count);
	c.distinct(c.idx + 5000);
	if (c.want_sample()) c.sample(vf::fmt("all 32-bit patterns 0x%08llx..0x%08llx as int and as unsigned", (unsigned long long)first, (unsigned long long)(first + count - 1)));
}

// LLONG_MIN in its own stratum
static void mode_llmin(vf::Ctx& c)
{
	const Long x = LLONG_MIN;
	const str want = "-9223372036854775808";
	switch (c.idx % 4) {
	case 0: { c.desc("String(Long LLONG_MIN)"); String s(x); verify(c, s, want, "llmin.ctor"); if (s.toLong() != x) c.fail("llmin.back", vf::fmt("toLong() = %lld", s.toLong())); break; }
	case 1: { c.desc("String s; s << LLONG_MIN"); String s; s << x; verify(c, s, want, "llmin.shl"); break; }
	case 2: { c.desc("String s = \"x\"; s = LLONG_MIN"); String s("x"); s = x; verify(c, s, want, "llmin.assign"); break; }
	default: { c.desc("String(\"-9223372036854775808\").toLong()"); String s = exact(want); if (s.toLong() != x) c.fail("llmin.parse", vf::fmt("toLong() = %lld", s.toLong())); break; }
	}
	c.distinct(c.idx % 4 + 9000);
	if (c.want_sample()) c.sample(c.curdesc());
}

// ------------------------------------------------------------------ printf-style construction
struct FmtCase
{
	vf::Ctx& c;
	Counters& cnt;
	int target;
	FmtCase(vf::Ctx& c_, Counters& cnt_, int t) : c(c_), cnt(cnt_), target(t) {}
	void note(int n)
	{
		static const int B[] = {15, 16, 99, 100, 254, 255, 256};
		for (int i = 0; i < 7; i++) if (n == B[i]) cnt.add("fmt:output length " + std::to_string(n));
		cnt.add(n < 255 ? "fmt:f() fits its stack buffer" : "fmt:f() retries on the heap");
	}
	std::vector<int> sizes(int n)
	{
		int v[] = {0, 1, 15, 16, 17, 20, 100, n - 1, n, n + 1, n + 2, 2 * n, n / 2};
		std::vector<int> o;
		for (unsigned i = 0; i < sizeof(v) / sizeof(v[0]); i++) if (v[i] >= 0) o.push_back(v[i]);
		return o;
	}
};

#define FMT_TRY(F, SHAPE, ...)                                                                                            \
	do {                                                                                                                  \
		str want = vf::fmt(F, __VA_ARGS__);                                                                               \
		fc.note((int)want.size());                                                                                        \
		c.desc(str("String::f(") + show(F) + ", ...) expected " + show(want));                                            \
		{ String a = String::f(F, __VA_ARGS__); verify(c, a, want, str("f.") + SHAPE); }                                  \
		std::vector<int> sz = fc.sizes((int)want.size());                                                                 \
		for (size_t qi = 0; qi < sz.size(); qi++) {                                                                       \
			c.desc(vf::fmt("String(%d, ", sz[qi]) + show(F) + ", ...) expected " + show(want));                           \
			String b(sz[qi], F, __VA_ARGS__);                                                                             \
			verify(c, b, want, str("ctor-fmt.") + SHAPE);                                                                 \
			cnt.add(sz[qi] == 0 ? "fmt:ctor default size" : sz[qi] > (int)want.size() ? "fmt:ctor size larger than output" : "fmt:ctor size not larger than output (retry)"); \
		}                                                                                                                 \
		c.evals(1 + sz.size());                                                                                           \
		c.distinct(vf::fnv(want, vf::fnv(str(F))));                                                                       \
	} while (0)

static void mode_fmt(vf::Ctx& c)
{
	vf::Rng& r = c.rng;
	Counters cnt(c);
	static const int T[] = {1, 14, 15, 16, 17, 19, 20, 23, 24, 98, 99, 100, 101, 253, 254, 255, 256, 257, 300, 511, 512, 1023, 1024, 1025, 5000};
	int target = r.below(5) ? T[r.below(sizeof(T) / sizeof(T[0]))] : r.range(1, 600);
	FmtCase fc(c, cnt, target);
	int shape = (int)(c.idx % 12);
	// literal padding inside the format string steers the output length onto the target
	#define PADDED(BODYLEN) (str((size_t)std::max(0, target - (int)(BODYLEN)), 'p'))
	switch (shape) {
	case 0: { int v = (int)(r.next() >> r.below(33)); if (r.below(2)) v = -v; str f = PADDED(vf::fmt("%i", v).size()) + "%i"; FMT_TRY(f.c_str(), "i", v); break; }
	case 1: { unsigned v = (unsigned)(r.next() >> r.below(33)); str f = PADDED(vf::fmt("%u", v).size()) + "%u"; FMT_TRY(f.c_str(), "u", v); break; }
	case 2: { Long v = (Long)(r.next() >> r.below(64)); if (r.below(2)) v = -v; str f = PADDED(vf::fmt("%lli", v).size()) + "%" ASL_LONG_FMT; FMT_TRY(f.c_str(), "lli", v); break; }
	case 3: { unsigned v = (unsigned)(r.next() >> r.below(33)); str f = PADDED(vf::fmt("%x", v).size()) + "%x"; FMT_TRY(f.c_str(), "x", v); break; }
	case 4: { str a = rnd(r, target, alpha_chars(r.below(2) ? 3 : 4)); CBuf cb(a); FMT_TRY("%s", "s", (const char*)cb); break; }
	case 5: { char ch = alpha_chars(4)[r.below(253)]; str f = PADDED(1) + "%c"; FMT_TRY(f.c_str(), "c", ch); break; }
	case 6: {
		int prec = r.range(0, 17);
		double v = r.below(4) == 0 ? rnd_double(r) : r.unit() * pow(10.0, r.range(-5, 15)) * (r.below(2) ? 1 : -1);
		if (r.below(8) == 0) v = r.unit() * pow(10.0, r.range(240, 300));  // %.Nf of a huge value: the number itself straddles 254..256
		str spec = vf::fmt("%%.%df", prec);
		str f = PADDED(vf::fmt(spec.c_str(), v).size()) + spec;
		FMT_TRY(f.c_str(), "f", v);
		break;
	}
	case 7: { double v = rnd_double(r); str f = PADDED(vf::fmt("%g", v).size()) + "%g"; FMT_TRY(f.c_str(), "g", v); break; }
	case 8: { str a = rnd(r, r.range(0, std::min(target, 12)), alpha_chars(3)); CBuf cb(a); str f = vf::fmt("%%%ds", target); FMT_TRY(f.c_str(), "Ns", (const char*)cb); break; }
	case 9: { str a = rnd(r, r.range(0, std::min(target + 3, 12)), alpha_chars(3)); CBuf cb(a); str f = vf::fmt("%%-%ds", target); FMT_TRY(f.c_str(), "-Ns", (const char*)cb); break; }
	case 10: {
		str a = rnd(r, r.range(0, 20), alpha_chars(3));
		CBuf cb(a);
		int i1 = (int)r.next();
		unsigned u1 = (unsigned)r.next();
		Long l1 = (Long)r.next();
		unsigned x1 = (unsigned)(r.next() >> r.below(33));
		char ch = (char)r.range('!', '~');
		double d1 = rnd_double(r), d2 = r.unit() * 1000;
		str body = vf::fmt("%s=%i,%u,%lli,%x,%c,%.3f,%g", (const char*)cb, i1, u1, l1, x1, ch, d2, d1);
		str f = PADDED(body.size()) + "%s=%i,%u,%" ASL_LONG_FMT ",%x,%c,%.3f,%g";
		FMT_TRY(f.c_str(), "mixed", (const char*)cb, i1, u1, l1, x1, ch, d2, d1);
		break;
	}
	default: {  // numeric constructors without a documented format: judged on length/terminator and, for values with a short exact decimal expansion, on reading back the same value
		for (int rep = 0; rep < 30; rep++) {
			bool nice = r.below(2) != 0;
			double d = nice ? (r.below(2) ? r.range(-1000000, 1000000) / 64.0 : (double)((Long)(r.next() >> r.range(12, 63)) % 1000000000000000LL) * (r.below(2) ? 1 : -1)) : rnd_double(r);
			c.desc(vf::fmt("String(double %.17g)", d));
			String s(d);
			if ((int)strlen(*s) != s.length()) c.fail("ctor.double.nul", vf::fmt("length() = %d, NUL at %d", s.length(), (int)strlen(*s)));
			double back = strtod(*s, 0);
			if (nice && back != d) c.fail("ctor.double.exact-decimal", vf::fmt("text '%s' reads back as %.17g", *s, back));
			cnt.add(vf::fmt("%.15g", d) == *s ? "double:text equals %.15g (recorded)" : "double:text differs from %.15g (recorded)");
			cnt.add(back == d || fabs(back - d) <= 1e-14 * fabs(d) ? "double:reads back within 1e-14 (recorded)" : "double:reads back outside 1e-14 (recorded)");
			float fl = nice ? (float)(r.range(-99999, 99999) / 4.0) : (float)rnd_double(r);
			if (!(fl - fl == 0)) fl = 1.5f;
			c.desc(vf::fmt("String(float %.9g)", fl));
			String sf(fl);
			if ((int)strlen(*sf) != sf.length()) c.fail("ctor.float.nul", vf::fmt("length() = %d, NUL at %d", sf.length(), (int)strlen(*sf)));
			float fb = strtof(*sf, 0);
			if (nice && fb != fl) c.fail("ctor.float.exact-decimal", vf::fmt("text '%s' reads back as %.9g", *sf, fb));
			cnt.add(fb == fl || fabs((double)fb - fl) <= 1e-6 * fabs((double)fl) ? "float:reads back within 1e-6 (recorded)" : "float:reads back outside 1e-6 (recorded)");
			bool bv = r.below(2) != 0;
			String sb(bv);
			verify(c, sb, bv ? "true" : "false", "ctor.bool");
			c.evals(3);
		}
		c.distinct(c.idx + 70000);
		break;
	}
	}
	cnt.add(vf::fmt("fmt:shape %d", shape));
	if (c.want_sample()) c.sample(c.curdesc().substr(0, 300));
}

int main(int argc, char** argv)
{
	vf::Runner R;
	R.add("hist", mode_hist, "mutation histories vs std::string, no aliasing operands");
	R.add("hist_self", mode_hist_self, "histories with operands that alias the target String");
	R.add("func", mode_func, "pure functions vs std::string");
	R.add("ints", mode_ints, "integer <-> text: boundaries (case 0) + random blocks");
	R.add("ints32", mode_ints32, "integer <-> text: exhaustive 32-bit blocks");
	R.add("llmin", mode_llmin, "LLONG_MIN");
	R.add("fmt", mode_fmt, "printf-style construction vs vsnprintf, numeric constructors");
	return R.main(argc, argv);
}
