// C12: shared handles (Array, Map/Dic, HashMap, Shared<T>, SmartObject classes) and atomic counters under
// concurrency.  Modes:
//   stress   real threads, high contention; run under tsan (race reports), asan (lifetime), plain (lost updates)
//   serial   2-3 threads x <=4 handle operations, every interleaving at the library's atomic steps enumerated
//            depth-first by a token-passing scheduler (hooks in atomic.h); each schedule is a real execution
//   counters AtomicCount / Atomic<T> conservation under contention
#include "common/runner.h"
#include "common/sched.h"
#include <asl/Array.h>
#include <asl/Map.h>
#include <asl/HashMap.h>
#include <asl/String.h>
#include <asl/Shared.h>
#include <asl/Pointer.h>
#include <asl/Mutex.h>
#include <thread>
#include <atomic>

using namespace asl;

// ---------------------------------------------------------------- tracked payload
static std::atomic<long> g_ctor(0), g_dtor(0), g_bad(0);
static const char* volatile g_err = 0;

struct Tracked
{
	unsigned magic;
	int v;
	Tracked() : magic(0xA11CE5u), v(0) { g_ctor++; }
	Tracked(int x) : magic(0xA11CE5u), v(x) { g_ctor++; }
	Tracked(const Tracked& o) : magic(0xA11CE5u), v(o.v) { if (o.magic != 0xA11CE5u) { g_bad++; g_err = "copy of a destroyed element"; } g_ctor++; }
	Tracked& operator=(const Tracked& o) { if (magic != 0xA11CE5u || o.magic != 0xA11CE5u) { g_bad++; g_err = "assignment touching a destroyed element"; } v = o.v; return *this; }
	~Tracked() { if (magic != 0xA11CE5u) { g_bad++; g_err = "payload destroyed twice"; } magic = 0xDEADu; g_dtor++; }
	bool ok() const { return magic == 0xA11CE5u; }
	bool operator==(const Tracked& o) const { return v == o.v; }
	bool operator!=(const Tracked& o) const { return v != o.v; }
	bool operator<(const Tracked& o) const { return v < o.v; }
	Tracked* clone() const { return new Tracked(*this); }
};

static void reset_tracking() { g_ctor = 0; g_dtor = 0; g_bad = 0; g_err = 0; }

ASL_SMART_CLASS(Thing, SmartObject)
{
public:
	ASL_SMART_INNER_DEF(Thing);
	Tracked t;
	Thing_() : t(5) {}
};
class Thing : public SmartObject
{
public:
	ASL_SMART_DEF(Thing, SmartObject);
	bool ok() const { return _()->t.ok(); }
};

// ---------------------------------------------------------------- handle kinds behind one interface
struct HArrT { typedef Array<Tracked> H; static H make() { H a; for (int i = 0; i < 5; i++) a << Tracked(i); return a; } static bool read(const H& h) { return h.length() == 5 && h[0].ok() && h[4].ok(); } static const char* name() { return "Array<Tracked>"; } };
struct HArrS { typedef Array<String> H; static const char* S() { return "a heap string of some length...."; } static H make() { H a; a << String(S()) << String("x"); return a; } static bool read(const H& h) { return h.length() == 2 && h[0].length() == (int)strlen(S()) && h[0] == S(); } static const char* name() { return "Array<String>"; } };
struct HMap { typedef Map<int, Tracked> H; static H make() { H m; for (int i = 0; i < 4; i++) m[i] = Tracked(i); return m; } static bool read(const H& h) { const Tracked* p = h.find(3); return h.length() == 4 && h.has(2) && p && p->ok(); } static const char* name() { return "Map<int,Tracked>"; } };
struct HDic { typedef Dic<String> H; static const char* S() { return "value number one, long enough"; } static H make() { H m; m["k1"] = S(); m["k2"] = "v"; return m; } static bool read(const H& h) { const String* p = h.find("k1"); return h.length() == 2 && p && *p == S(); } static const char* name() { return "Dic<String>"; } };
struct HHash { typedef HashMap<int, Tracked> H; static H make() { H m; for (int i = 0; i < 4; i++) m[i * 256] = Tracked(i); return m; } static bool read(const H& h) { const Tracked* p = h.find(768); return h.length() == 4 && h.has(512) && p && p->ok(); } static const char* name() { return "HashMap<int,Tracked>"; } };
struct HHashBig { typedef HashMap<int, Tracked> H; static H make() { H m; for (int i = 0; i < 300; i++) m[i * 7] = Tracked(i); return m; }   // grown past the 225-entry rehash threshold before it is shared
	static bool read(const H& h) { const Tracked* p = h.find(299 * 7); const Tracked* q = h.find(7); return h.length() == 300 && p && p->ok() && q && q->ok(); } static const char* name() { return "HashMap<int,Tracked> after growth"; } };
struct HShared { typedef Shared<Tracked> H; static H make() { return H(new Tracked(9)); } static bool read(const H& h) { return h->ok() && h->v == 9; } static const char* name() { return "Shared<Tracked>"; } };
struct HSharedA { typedef Shared<Tracked> H; static H make() { H h; h = new Tracked(9); return h; } static bool read(const H& h) { return h->ok() && h->v == 9; } static const char* name() { return "Shared<Tracked> filled by assigning a pointer"; } };
struct HArrBig { typedef Array<Tracked> H; static H make() { H a; for (int i = 0; i < 3000; i++) a << Tracked(i % 100); return a; } static bool read(const H& h) { return h.length() == 3000 && h[0].ok() && h[2999].ok(); } static const char* name() { return "Array<Tracked> of 3000 elements"; } };
struct HSharedNull { typedef Shared<Tracked> H; static H make() { return H((Tracked*)0); } static bool read(const H&) { return true; } static const char* name() { return "Shared<Tracked> built from a null pointer"; } };
// handles of a derived type, assigned through a base-typed handle (converting constructor and converting assignment of Shared)
struct TrackedD : Tracked { TrackedD(int x) : Tracked(x) {} };
struct HSharedConv { typedef Shared<TrackedD> H; static H make() { return H(new TrackedD(9)); } static bool read(const H& h) { return h->ok() && h->v == 9; } static const char* name() { return "Shared<Derived> assigned through Shared<Base> handles"; } };
struct HSmartBase { typedef SmartObject H; static H make() { return SmartObject(); } static bool read(const H& h) { return h._p != 0; } static const char* name() { return "plain SmartObject (default-constructed)"; } };
struct HSmart { typedef Thing H; static H make() { return Thing(); } static bool read(const H& h) { return h.ok(); } static const char* name() { return "SmartObject class"; } };

enum Op { OP_COPY, OP_ASSIGN, OP_DROP, OP_READ, OP_REACQUIRE, OP_RESET, OP_CLONE, OP_DUP, NOPS };
static const char* OPN[] = {"copy", "assign", "drop", "read", "reacquire", "reset-by-assigning-an-empty-handle", "clone-and-drop", "dup"};

// the empty / null handle of each kind (a default-constructed smart class is a new object, its null handle is built from a null pointer)
template<class K> struct EmptyOf { static typename K::H get() { return typename K::H(); } };
template<> struct EmptyOf<HSmart> { static Thing get() { return Thing((SmartObject_*)0); } };
// an independent deep copy held by one handle (Shared<T> has no clone(): a second object is made from the first's value)
template<class K> struct CloneOf { static typename K::H get(const typename K::H& h) { return h.clone(); } };
template<> struct CloneOf<HSharedA> { static Shared<Tracked> get(const Shared<Tracked>& h) { return Shared<Tracked>(new Tracked(*h)); } };
// dup(): the handle gets a private copy of the shared storage (containers only)
template<class K> struct DupOf { static void apply(typename K::H& h) { h.dup(); } };
template<> struct DupOf<HShared> { static void apply(Shared<Tracked>&) {} };
template<> struct DupOf<HSharedA> { static void apply(Shared<Tracked>&) {} };
template<> struct DupOf<HSmart> { static void apply(Thing&) {} };
template<> struct DupOf<HSharedNull> { static void apply(Shared<Tracked>&) {} };
template<> struct CloneOf<HSharedNull> { static Shared<Tracked> get(const Shared<Tracked>& h) { return Shared<Tracked>(h); } };
template<> struct DupOf<HSmartBase> { static void apply(SmartObject&) {} };
template<> struct CloneOf<HSmartBase> { static SmartObject get(const SmartObject& h) { return SmartObject(h); } };
template<> struct EmptyOf<HSmartBase> { static SmartObject get() { return SmartObject((SmartObject_*)0); } };
template<> struct CloneOf<HShared> { static Shared<Tracked> get(const Shared<Tracked>& h) { return Shared<Tracked>(new Tracked(*h)); } };

template<> struct DupOf<HSharedConv> { static void apply(Shared<TrackedD>&) {} };
template<> struct CloneOf<HSharedConv> { static Shared<TrackedD> get(const Shared<TrackedD>& h) { return Shared<TrackedD>(new TrackedD(*h)); } };
// assignment: plain for every kind; for HSharedConv additionally through a base-typed handle that already shares the target's object
// (mostly the very object the source holds). The base handle is never the last one: dst and src outlive it.
template<class K> struct AssignOf { static void apply(typename K::H& dst, const typename K::H& src) { dst = src; } };
template<> struct AssignOf<HSharedConv> { static void apply(Shared<TrackedD>& dst, const Shared<TrackedD>& src) { Shared<Tracked> base(dst); base = src; dst = src; } };

// a thread's program over its own handles (it always keeps its seed handle until the end)
template<class K>
static void runProgram(const typename K::H& seedHandle, const std::vector<int>& prog, std::atomic<int>* badRead)
{
	typedef typename K::H H;
	std::vector<H*> own;
	own.push_back(new H(seedHandle));
	for (size_t i = 0; i < prog.size(); i++) {
		int op = prog[i] & 7, arg = prog[i] >> 3;
#if defined(__SANITIZE_THREAD__)
		// clone() is not one of the operations the property lists (copy, assign, drop); it is exercised for the
		// "destroyed exactly once" clause in the ASan / plain builds only: its check-then-act read of the count
		// (a plain load of a volatile int in dup()) is a formal race for TSan - see DESIGN.md, observations
		if (op == OP_CLONE || op == OP_DUP) op = OP_COPY;
#endif
		switch (op) {
		case OP_COPY: own.push_back(new H(*own[arg % own.size()])); break;
		case OP_ASSIGN: { size_t a = arg % own.size(), b = (arg / 7) % own.size(); if (a != b) AssignOf<K>::apply(*own[a], *own[b]); break; }
		case OP_DROP: if (own.size() > 1) { delete own.back(); own.pop_back(); } break;
		case OP_READ: if (!K::read(*own[arg % own.size()])) (*badRead)++; break;
		case OP_REACQUIRE: if (own.size() > 1) { delete own.back(); own.back() = new H(seedHandle); } break;
		case OP_RESET: if (own.size() > 1) { *own.back() = EmptyOf<K>::get(); delete own.back(); own.pop_back(); } break;
		case OP_DUP: if (own.size() > 1) { DupOf<K>::apply(*own.back()); if (!K::read(*own.back())) (*badRead)++; } break;   // never the seed handle: the others keep sharing
		case OP_CLONE: { H cl = CloneOf<K>::get(*own[arg % own.size()]); if (!K::read(cl)) (*badRead)++; break; }   // the clone's only handle goes away here
		}
	}
	for (size_t i = 0; i < own.size(); i++) delete own[i];
}

static std::string progStr(const std::vector<int>& p)
{
	std::string s;
	for (size_t i = 0; i < p.size(); i++) { if (i) s += ","; s += OPN[p[i] & 7]; }
	return s;
}

// ---------------------------------------------------------------- serial exploration
template<class K>
static void serialCase(vf::Ctx& c)
{
	typedef typename K::H H;
	int nth = c.rng.chance(0.35) ? 3 : 2;
	int maxops = nth == 3 ? 2 : (int)c.opt->param("ops2", 3);
	std::vector<std::vector<int> > prog(nth);
	for (int t = 0; t < nth; t++) {
		int n = c.rng.range(1, maxops);
		for (int i = 0; i < n; i++) { int op = c.rng.below(NOPS); if (op == OP_READ && c.rng.chance(0.5)) op = OP_COPY; prog[t].push_back(op | (c.rng.below(64) << 3)); }
	}
	bool mainKeeps = c.rng.chance(0.3);
	std::string d = vf::fmt("%s, %d threads, main %s its handle first:", K::name(), nth, mainKeeps ? "keeps" : "drops");
	for (int t = 0; t < nth; t++) d += vf::fmt(" T%d[%s]", t, progStr(prog[t]).c_str());
	long cap = c.opt->param("maxsched", 3000);
	std::vector<int> prefix;
	long nsched = 0;
	std::unordered_set<uint64_t> seen;
	bool exhausted = false;
	for (;;) {
		reset_tracking();
		std::atomic<int> badRead(0);
		std::string pf;
		for (size_t i = 0; i < prefix.size(); i++) pf += (char)('0' + prefix[i]);
		c.desc(d + " schedule prefix " + pf);
		{
			H* orig = new H(K::make());
			std::vector<H*> seedh;
			for (int t = 0; t < nth; t++) seedh.push_back(new H(*orig));   // each thread's own handle, made before the threads start
			if (!mainKeeps) { delete orig; orig = 0; }
			sched::serial_begin(nth, prefix);
			std::vector<std::thread> th;
			for (int t = 0; t < nth; t++)
				th.emplace_back([&, t]() {
					sched::enter(t);
					H* mine = seedh[t];
					runProgram<K>(*mine, prog[t], &badRead);
					delete mine;       // the thread's last handle
					sched::leave();
				});
			sched::serial_go();
			for (auto& x : th) x.join();
			std::vector<sched::Decision> tr = sched::serial_end();
			seen.insert(sched::g().ehash.load());
			if (orig) { if (!K::read(*orig)) badRead++; delete orig; }
			nsched++;
			c.evals(1);
			if (badRead) c.fail("serial.read-through-live-handle-failed", vf::fmt("%d bad reads", (int)badRead));
			if (g_err) c.fail(std::string("serial.") + (const char*)g_err, "");
			if (g_ctor != g_dtor) c.fail("serial.payload-not-destroyed-exactly-once", vf::fmt("constructed %ld destroyed %ld after the last handle was dropped", (long)g_ctor, (long)g_dtor));
			if (!sched::next_prefix(tr, prefix)) { exhausted = true; break; }
		}
		if (nsched >= cap) break;
	}
	c.count("schedules", nsched);
	c.count("distinct_interleavings", seen.size());
	c.count(exhausted ? "scenarios_exhaustive" : "scenarios_capped");
	for (uint64_t h : seen) c.distinct(vf::mix(h, vf::fnv(d)));
	if (c.want_sample()) c.sample(d + vf::fmt(" -> %ld schedules, %d distinct interleavings%s", nsched, (int)seen.size(), exhausted ? " (all)" : " (capped)"));
}

static void mode_serial(vf::Ctx& c)
{
	switch (c.idx % 13) {
	case 12: serialCase<HSharedConv>(c); break;
	case 11: serialCase<HSharedNull>(c); break;
	case 10: serialCase<HSmartBase>(c); break;
	case 8: serialCase<HSharedA>(c); break;
	case 9: serialCase<HArrBig>(c); break;
	case 7: serialCase<HHashBig>(c); break;
	case 0: serialCase<HArrT>(c); break;
	case 1: serialCase<HArrS>(c); break;
	case 2: serialCase<HMap>(c); break;
	case 3: serialCase<HDic>(c); break;
	case 4: serialCase<HHash>(c); break;
	case 5: serialCase<HShared>(c); break;
	default: serialCase<HSmart>(c); break;
	}
}

// ---------------------------------------------------------------- stress
template<class K>
static void stressCase(vf::Ctx& c)
{
	typedef typename K::H H;
	int nth = (int)c.opt->param("threads", 16);
	long nops = c.opt->param("ops", 20000);
	if (sizeof(typename K::H) && (std::string(K::name()).find("3000") != std::string::npos || std::string(K::name()).find("grown") != std::string::npos)) nops /= 40;   // clones of the big kinds cost thousands of element copies
	uint64_t seed = c.rng.next();
	int jmode = c.rng.below(3);
	if (jmode == 1) sched::jitter(seed, 0.002, 30);
	else if (jmode == 2) sched::jitter(seed, 0.05, 0);
	else sched::off();
	c.desc(vf::fmt("stress %s: %d threads x %ld ops, jitter mode %d, seed %llu", K::name(), nth, nops, jmode, (unsigned long long)seed));
	reset_tracking();
	std::atomic<int> badRead(0);
	{
		H* orig = new H(K::make());
		std::vector<H*> seedh;
		for (int t = 0; t < nth; t++) seedh.push_back(new H(*orig));
		delete orig;
		std::atomic<int> go(0);
		std::vector<std::thread> th;
		for (int t = 0; t < nth; t++)
			th.emplace_back([&, t]() {
				vf::Rng r(vf::mix(seed, t));
				std::vector<int> prog;
				for (long i = 0; i < nops; i++) { int op = r.below(NOPS); prog.push_back(op | (r.below(64) << 3)); }
				while (!go.load()) {}
				H* mine = seedh[t];
				runProgram<K>(*mine, prog, &badRead);
				delete mine;
			});
		go = 1;
		for (auto& x : th) x.join();
	}
	sched::off();
	c.evals(nth * nops);
	if (badRead) c.fail("stress.read-through-live-handle-failed", vf::fmt("%d bad reads", (int)badRead));
	if (g_err) c.fail(std::string("stress.") + (const char*)g_err, "");
	if (g_ctor != g_dtor) c.fail("stress.payload-not-destroyed-exactly-once", vf::fmt("constructed %ld destroyed %ld", (long)g_ctor, (long)g_dtor));
	c.count("jitter_delays", sched::g().ndelays.load());
	c.distinct(vf::mix(seed, vf::fnv(K::name())));
	if (c.want_sample()) c.sample(c.curdesc());
}

// dup() on one handle while the only other handle to the same storage is dropped by another thread: the copy must be
// taken before the handle lets go of the shared storage (real threads, the dropper starts after a swept delay)
template<class K>
static void dupRaceCase(vf::Ctx& c)
{
	typedef typename K::H H;
	int rounds = (int)c.opt->param("rounds", 150);
	c.desc(vf::fmt("%s: dup() in one thread while the last other handle is dropped in another, %d rounds with swept start delays", K::name(), rounds));
	reset_tracking();
	std::atomic<int> badRead(0);
	for (int k = 0; k < rounds; k++) {
		H* a = new H(K::make());
		H* b = new H(*a);
		std::atomic<int> go(0);
		int spin = (k % 50) * (int)c.opt->param("spin", 40);
		std::thread t1([&]() { while (!go.load()) {} DupOf<K>::apply(*a); if (!K::read(*a)) badRead++; });
		std::thread t2([&]() { while (!go.load()) {} for (volatile int i = 0; i < spin; i++) {} delete b; });
		go = 1;
		t1.join();
		t2.join();
		if (!K::read(*a)) badRead++;
		delete a;
	}
	if (badRead) c.fail("duprace.read-through-live-handle-failed", vf::fmt("%d bad reads", (int)badRead));
	if (g_err) c.fail(std::string("duprace.") + (const char*)g_err, "");
	if (g_ctor != g_dtor) c.fail("duprace.payload-not-destroyed-exactly-once", vf::fmt("constructed %ld destroyed %ld", (long)g_ctor, (long)g_dtor));
	c.evals(rounds);
	c.distinct(vf::mix(c.idx, vf::fnv(K::name())));
	if (c.want_sample()) c.sample(c.curdesc());
}

// Atomic<T> holding a handle (the documented Atomic<Array<float>> use): one thread publishes new arrays with operator=, others take
// their own handle with the conversion operator and read through it; every published array is destroyed exactly once
static void mode_atomic_handle(vf::Ctx& c)
{
	int readers = c.rng.range(1, 4), rounds = (int)c.opt->param("rounds", 3000);
	c.desc(vf::fmt("Atomic<Array<Tracked>>: one writer publishing %d arrays, %d readers copying the handle out and reading it", rounds, readers));
	reset_tracking();
	std::atomic<int> bad(0), stop(0);
	{
		Array<Tracked> first;
		for (int i = 0; i < 8; i++) first << Tracked(i);
		Atomic<Array<Tracked> > pub(first);
		std::vector<std::thread> th;
		for (int r = 0; r < readers; r++)
			th.emplace_back([&]() {
				while (!stop.load()) {
					Array<Tracked> mine = pub;   // conversion: takes a handle under the Atomic's lock
					if (mine.length() != 8 || !mine[0].ok() || !mine[7].ok()) bad++;
				}
			});
		for (int k = 0; k < rounds; k++) {
			Array<Tracked> next;
			for (int i = 0; i < 8; i++) next << Tracked(i + k);
			pub = next;
		}
		stop = 1;
		for (auto& x : th) x.join();
	}
	if (bad) c.fail("atomic-handle.read-through-live-handle-failed", vf::fmt("%d bad reads", (int)bad));
	if (g_err) c.fail(std::string("atomic-handle.") + (const char*)g_err, "");
	if (g_ctor != g_dtor) c.fail("atomic-handle.payload-not-destroyed-exactly-once", vf::fmt("constructed %ld destroyed %ld", (long)g_ctor, (long)g_dtor));
	c.evals(rounds);
	c.distinct(vf::mix(c.idx, (uint64_t)readers));
	if (c.want_sample()) c.sample(c.curdesc());
}

static void mode_dup_race(vf::Ctx& c)
{
	switch (c.idx % 7) {
	case 0: dupRaceCase<HArrT>(c); break;
	case 1: dupRaceCase<HArrS>(c); break;
	case 2: dupRaceCase<HMap>(c); break;
	case 3: dupRaceCase<HDic>(c); break;
	case 4: dupRaceCase<HHash>(c); break;
	case 5: dupRaceCase<HHashBig>(c); break;
	default: dupRaceCase<HArrBig>(c); break;
	}
}

static void mode_stress(vf::Ctx& c)
{
	switch (c.idx % 13) {
#if defined(__SANITIZE_THREAD__)
	case 12: stressCase<HShared>(c); break;   // the converting copy writes the (unchanged) object pointer back into the shared count block: a formal race, asan/plain only
#else
	case 12: stressCase<HSharedConv>(c); break;
#endif
	case 11: stressCase<HSharedNull>(c); break;
	case 10: stressCase<HSmartBase>(c); break;
	case 8: stressCase<HSharedA>(c); break;
	case 9: stressCase<HArrBig>(c); break;
	case 7: stressCase<HHashBig>(c); break;
	case 0: stressCase<HArrT>(c); break;
	case 1: stressCase<HArrS>(c); break;
	case 2: stressCase<HMap>(c); break;
	case 3: stressCase<HDic>(c); break;
	case 4: stressCase<HHash>(c); break;
	case 5: stressCase<HShared>(c); break;
	default: stressCase<HSmart>(c); break;
	}
}

// ---------------------------------------------------------------- counters
static void mode_counters(vf::Ctx& c)
{
	int nth = (int)c.opt->param("threads", 16);
	long nops = c.opt->param("ops", 50000);
	uint64_t seed = c.rng.next();
	int jmode = c.rng.below(3);
	if (jmode == 1) sched::jitter(seed, 0.001, 20);
	else if (jmode == 2) sched::jitter(seed, 0.05, 0);
	else sched::off();
	c.desc(vf::fmt("counters: %d threads x %ld ops, jitter mode %d, seed %llu", nth, nops, jmode, (unsigned long long)seed));
	AtomicCount ac(1000);
	Atomic<int> ai(7);
	Atomic<Long> al((Long)1 << 40);
	Atomic<double> ad(0.0);
	std::vector<long> dac(nth, 0), dai(nth, 0), dal(nth, 0), dad(nth, 0);
	std::atomic<int> go(0);
	std::vector<std::thread> th;
	for (int t = 0; t < nth; t++)
		th.emplace_back([&, t]() {
			vf::Rng r(vf::mix(seed, t));
			while (!go.load()) {}
			for (long i = 0; i < nops; i++) {
				switch (r.below(12)) {
				case 0: ++ac; dac[t]++; break;
				case 1: --ac; dac[t]--; break;
				case 2: ++ai; dai[t]++; break;
				case 3: ai++; dai[t]++; break;
				case 4: --ai; dai[t]--; break;
				case 5: ai--; dai[t]--; break;
				case 6: { int k = r.range(1, 9); ai += k; dai[t] += k; break; }
				case 7: { int k = r.range(1, 9); ai -= k; dai[t] -= k; break; }
				case 8: { Long k = r.range(1, 1000); al += k; dal[t] += k; break; }
				case 9: { if (r.chance(0.5)) { ++al; dal[t]++; } else { int k = r.range(1, 9); al -= k; dal[t] -= k; } break; }   // Atomic<Long> with an int operand
				case 10: { int k = r.range(1, 64); ad += (double)k; dad[t] += k; break; }   // integers: exact in double
				case 11: { int k = r.range(1, 64); if (k & 1) ad -= (double)k; else ad -= k; dad[t] -= k; break; }   // half of them with an int operand on the Atomic<double>
				}
			}
		});
	go = 1;
	for (auto& x : th) x.join();
	sched::off();
	long sac = 0, sai = 0, sal = 0, sad = 0;
	for (int t = 0; t < nth; t++) { sac += dac[t]; sai += dai[t]; sal += dal[t]; sad += dad[t]; }
	c.evals(nth * nops);
	if ((int)ac != 1000 + sac) c.fail("counters.AtomicCount-lost-update", vf::fmt("final %d expected %ld", (int)ac, 1000 + sac));
	if ((int)ai != 7 + sai) c.fail("counters.Atomic<int>-lost-update", vf::fmt("final %d expected %ld", (int)ai, 7 + sai));
	if ((Long)al != ((Long)1 << 40) + sal) c.fail("counters.Atomic<Long>-lost-update", vf::fmt("final %lld expected %lld", (long long)(Long)al, (long long)(((Long)1 << 40) + sal)));
	if ((double)ad != (double)sad) c.fail("counters.Atomic<double>-lost-update", vf::fmt("final %.1f expected %ld", (double)ad, sad));
	c.distinct(seed);
	if (c.want_sample()) c.sample(c.curdesc() + vf::fmt(" -> AtomicCount %d, Atomic<int> %d", (int)ac, (int)ai));
}

// serial exploration of counter operations: 2-3 threads x <=4 ops on one AtomicCount, all interleavings at the atomic steps
static void mode_serial_counters(vf::Ctx& c)
{
	int nth = c.rng.chance(0.4) ? 3 : 2;
	int nops = nth == 3 ? c.rng.range(1, 3) : c.rng.range(1, 4);
	std::vector<std::vector<int> > prog(nth);
	long expect = 0;
	for (int t = 0; t < nth; t++) for (int i = 0; i < nops; i++) { int inc = c.rng.chance(0.5); prog[t].push_back(inc); expect += inc ? 1 : -1; }
	std::string d = vf::fmt("AtomicCount, %d threads x %d ops", nth, nops);
	std::vector<int> prefix;
	long nsched = 0, cap = c.opt->param("maxsched", 3000);
	std::unordered_set<uint64_t> seen;
	bool exhausted = false;
	for (;;) {
		c.desc(d + vf::fmt(" schedule #%ld", nsched));
		AtomicCount ac(100);
		sched::serial_begin(nth, prefix);
		std::vector<std::thread> th;
		for (int t = 0; t < nth; t++)
			th.emplace_back([&, t]() {
				sched::enter(t);
				for (size_t i = 0; i < prog[t].size(); i++) { if (prog[t][i]) ++ac; else --ac; }
				sched::leave();
			});
		sched::serial_go();
		for (auto& x : th) x.join();
		std::vector<sched::Decision> tr = sched::serial_end();
		seen.insert(sched::g().ehash.load());
		nsched++;
		if ((int)ac != 100 + expect) c.fail("serial.AtomicCount-lost-update", vf::fmt("final %d expected %ld", (int)ac, 100 + expect));
		if (!sched::next_prefix(tr, prefix)) { exhausted = true; break; }
		if (nsched >= cap) break;
	}
	c.evals(nsched);
	c.count("schedules", nsched);
	c.count(exhausted ? "scenarios_exhaustive" : "scenarios_capped");
	for (uint64_t h : seen) c.distinct(vf::mix(h, vf::fnv(d)));
	if (c.want_sample()) c.sample(d + vf::fmt(" -> %ld schedules", nsched));
}

// ---------------------------------------------------------------- chains: handles reachable only through the object a handle refers to
struct Node
{
	Tracked t;
	Shared<Node> next;
	Node(int v) : t(v) {}
};

ASL_SMART_CLASS(Link, SmartObject)
{
public:
	ASL_SMART_INNER_DEF(Link);
	Tracked t;
	SmartObject next;
	Link_() : t(1), next((SmartObject_*)0) {}
};
class Link : public SmartObject
{
public:
	ASL_SMART_DEF(Link, SmartObject);
	bool ok() const { return _()->t.ok(); }
	SmartObject& next() { return _()->next; }
};

// every thread walks the same list with its own cursor (cur = cur->next); the head handle is dropped first, so each node stays alive only
// through the previous node or through a cursor. All nodes must be destroyed exactly once, none while a cursor still points at it.
static void mode_chain(vf::Ctx& c)
{
	int n = c.rng.range(2, 40), nth = c.rng.range(1, 4);
	bool smart = c.rng.chance(0.5);
	uint64_t seed = c.rng.next();
	int jm = c.rng.below(3);
	if (jm == 1) sched::jitter(seed, 0.05, 50);
	else if (jm == 2) sched::jitter(seed, 0.3, 0);
	else sched::off();
	c.desc(vf::fmt("%s chain of %d nodes walked by %d threads (cur = cur->next), jitter %d", smart ? "SmartObject-class" : "Shared<Node>", n, nth, jm));
	reset_tracking();
	std::atomic<int> bad(0), visited(0);
	if (!smart) {
		std::vector<Shared<Node> > cursors;
		{
			Shared<Node> head(new Node(0));
			Shared<Node> cur = head;
			for (int i = 1; i < n; i++) { cur->next = Shared<Node>(new Node(i)); cur = cur->next; }
			for (int t = 0; t < nth; t++) cursors.push_back(head);
		}   // head and the building cursor are gone: only the per-thread cursors hold the first node
		std::vector<std::thread> th;
		for (int t = 0; t < nth; t++)
			th.emplace_back([&, t]() {
				Shared<Node>& cur = cursors[t];
				while (cur) {
					if (!cur->t.ok()) bad++;
					visited++;
					cur = cur->next;     // the source handle lives inside the object the target refers to
				}
			});
		for (auto& x : th) x.join();
		cursors.clear();
	} else {
		std::vector<Link> cursors;
		{
			Link head;
			Link cur = head;
			for (int i = 1; i < n; i++) { Link nx; cur.next() = nx; cur = nx; }
			for (int t = 0; t < nth; t++) cursors.push_back(head);
		}
		std::vector<std::thread> th;
		for (int t = 0; t < nth; t++)
			th.emplace_back([&, t]() {
				SmartObject cur = cursors[t];
				cursors[t] = Link();   // the cursor is now the only handle of this thread to the list
				for (;;) {
					Link_* node = (Link_*)cur._p;
					if (!node->t.ok()) bad++;
					visited++;
					if (node->next.isnull()) break;
					cur = node->next;     // assigned from the handle stored inside the object the cursor refers to
				}
			});
		for (auto& x : th) x.join();
		cursors.clear();
	}
	sched::off();
	if (bad) c.fail("chain.node-destroyed-while-a-cursor-points-at-it", vf::fmt("%d reads of destroyed nodes", (int)bad));
	if (g_err) c.fail(std::string("chain.") + (const char*)g_err, "");
	if (visited != n * nth) c.fail("chain.walk-length", vf::fmt("visited %d, expected %d", (int)visited, n * nth));
	if (g_ctor != g_dtor) c.fail("chain.payload-not-destroyed-exactly-once", vf::fmt("constructed %ld destroyed %ld", (long)g_ctor, (long)g_dtor));
	c.evals(n * nth);
	c.distinct(vf::mix(seed, n * 8 + nth));
	if (c.want_sample()) c.sample(c.curdesc());
}

int main(int argc, char** argv)
{
	vf::Runner R;
	R.add("chain", mode_chain, "cursors walking a shared linked list: cur = cur->next");
	R.add("serial", mode_serial, "all interleavings of small handle scenarios at the atomic steps");
	R.add("serial_counters", mode_serial_counters, "all interleavings of AtomicCount ops");
	R.add("atomic_handle", mode_atomic_handle, "Atomic<Array<T>> published by one thread, copied out by others");
	R.add("dup_race", mode_dup_race, "dup() racing the drop of the last other handle (containers)");
	R.add("stress", mode_stress, "high-contention handle traffic");
	R.add("counters", mode_counters, "AtomicCount / Atomic<T> conservation");
	return R.main(argc, argv);
}
